#!/bin/bash
# tools/confirm_seed.sh <out-dir of one mutant, e.g. /tmp/wt/C01.out/mutant_1> <seed-name e.g. C01-1>
# Confirms in a scratch worktree of /repo's HEAD: patch applies, builds, 972 baseline passes,
# demo fails with the change and passes without it. On success copies into /verif/seeded/<name>/.
M="$1"; NAME="$2"
export GOFLAGS=-mod=mod GOPROXY=off GOSUMDB=off GOTOOLCHAIN=local
W=/tmp/wt/confirm-$$
git -C /repo worktree add -q --detach "$W" HEAD || exit 2
cleanup() { git -C /repo worktree remove --force "$W" 2>/dev/null; }
trap cleanup EXIT
cd "$W"
PROP=$(python3 -c "import json;print(json.load(open('$M/meta.json'))['property'])")
if ! git apply "$M/patch.diff" 2>/dev/null; then
  if ! git apply -3 "$M/patch.diff" 2>/dev/null; then echo "$NAME: APPLY-FAILED"; exit 3; fi
  git reset -q
fi
git diff > /tmp/wt/confirm-$$.diff
if ! go build ./... 2>/tmp/wt/confirm-$$.log; then echo "$NAME: BUILD-FAILED"; cat /tmp/wt/confirm-$$.log; exit 3; fi
B=$(/tmp/tools/baseline.sh "$W" | head -1)
case "$B" in *"972/972"*) ;; *) echo "$NAME: BASELINE-FAILS: $B"; exit 3;; esac
# demo location: package given by its 'package' clause and imports
DEMO="$M/demo_test.go"
PKGDIR=ion
if grep -q '^package main' "$DEMO"; then PKGDIR=cmd/ion-go; fi
cp "$DEMO" "$PKGDIR/zz_demo_test.go"
FN=$(grep -o 'func TestDemo[A-Za-z0-9_]*' "$DEMO" | head -1 | sed 's/func //')
WITH=$(go test -vet=off -count=1 -run "^$FN\$" ./$PKGDIR 2>&1 | tail -3); RW=$?
go test -vet=off -count=1 -run "^$FN\$" ./$PKGDIR >/dev/null 2>&1; RW=$?
git apply -R /tmp/wt/confirm-$$.diff
go test -vet=off -count=1 -run "^$FN\$" ./$PKGDIR >/dev/null 2>&1; RWO=$?
rm -f "$PKGDIR/zz_demo_test.go" /tmp/wt/confirm-$$.diff /tmp/wt/confirm-$$.log
if [ $RW -ne 0 ] && [ $RWO -eq 0 ]; then
  D=/verif/seeded/$NAME; mkdir -p "$D"
  # store the patch as it applies to the current HEAD
  (cd "$W" && git apply "$M/patch.diff" 2>/dev/null || git apply -3 "$M/patch.diff"; git reset -q; git diff > "$D/patch.diff"; git checkout -- .)
  cp "$DEMO" "$D/demo_test.go.txt"
  python3 - "$M/meta.json" "$D/meta.json" "$NAME" "$(git -C /repo rev-parse --short HEAD)" <<'PY'
import json,sys
m=json.load(open(sys.argv[1]))
out={"seed":sys.argv[3],"property":m.get("property"),"summary":m.get("summary"),"needs":m.get("needs"),"files":m.get("files"),
 "confirmed":{"at_repo_commit":sys.argv[4],"baseline":"972/972 stable tests pass with the change","demo":"demo test fails with the change and passes without it (go test -run, scratch worktree)"},
 "detected_by":[]}
json.dump(out,open(sys.argv[2],'w'),indent=1)
PY
  echo "$NAME: CONFIRMED ($PROP) baseline=972/972 demo with=FAIL without=PASS"
else
  echo "$NAME: NOT-CONFIRMED demo with rc=$RW without rc=$RWO"
fi
