#!/bin/bash
# tools/mutant.sh <patch.diff> <tier> <ID>...   — apply a seeded change to /repo, run checks, always revert.
P="$(realpath "$1")"; T="$2"; shift 2
cd /repo || exit 2
if [ -n "$(git status --porcelain --untracked-files=no)" ]; then echo "repo dirty"; exit 2; fi
if ! git apply "$P" 2>/dev/null; then
  if ! git apply -3 "$P" 2>/dev/null; then echo "APPLY-FAILED $P"; git reset -q; git checkout -- . ; exit 3; fi
  git reset -q
fi
trap 'git -C /repo reset -q; git -C /repo checkout -- . ' EXIT
for id in "$@"; do
  out=$(cd /verif && ./run.sh "$id" "$T" 2>&1); rc=$?
  nv=$(echo "$out" | grep -c '^VIOLATION')
  echo "== $id rc=$rc violations=$nv :: $(echo "$out" | grep -m1 -A2 '^VIOLATION' | tr '\n' ' ' | cut -c1-300)"
  echo "   $(echo "$out" | tail -1 | cut -c1-200)"
done
