#!/usr/bin/env python3
"""tools/add_findings.py <ID> <what> <replay files...>  — append the violations of the given replay files as known findings
(replays/<ID>/ accumulates files from every run, including runs against seeded changes: never glob it).
Only to be used after each witness has been classified as a genuine defect that cannot be repaired with a small fix."""
import json,glob,sys
pid,what=sys.argv[1],sys.argv[2]
p='/verif/known_findings.json'
d=json.load(open(p))
have={(e.get('property'),e.get('failure_class'),e.get('key'),e.get('witness')) for e in d['entries'] if e['kind']=='finding'}
n=0
for f in sys.argv[3:]:
    v=json.load(open(f)); wf=v['witness_failure']
    k=(pid,wf['class'],wf['key'],v['witness'])
    if k in have: continue
    have.add(k); n+=1
    d['entries'].append({"kind":"finding","property":pid,"failure_class":wf['class'],"key":wf['key'],"witness":v['witness'],"what":what})
json.dump(d,open(p,'w'),indent=1)
print("added",n)
