#!/bin/bash
# tools/baseline.sh [dir] [extra go test flags…]
# Runs the repository's pinned test suite (guard OFF unless flags say otherwise) in dir
# (default /repo) and checks that every test in BASELINE.json's stable_pass list passes.
# Exit 0 iff all stable tests pass.
D="${1:-/repo}"; shift
export GOFLAGS=-mod=mod GOPROXY=off GOSUMDB=off GOTOOLCHAIN=local
T=$(mktemp)
(cd "$D" && go test "$@" -json -vet=off -count=1 -timeout 25m ./... > "$T" 2>/dev/null)
python3 - "$T" <<'PY'
import json,sys
base=json.load(open('/root/.vp/BASELINE.json'))
want=set(base['stable_pass'])
passed=set(); failed=set()
for line in open(sys.argv[1]):
    try: e=json.loads(line)
    except Exception: continue
    if e.get('Test') and e.get('Action') in('pass','fail'):
        k=e['Package']+'::'+e['Test']
        (passed if e['Action']=='pass' else failed).add(k)
missing=sorted(want-passed)
print(f"baseline: {len(want&passed)}/{len(want)} stable tests pass; {len(missing)} missing/failing")
for m in missing[:15]: print("  NOT PASSING:",m)
sys.exit(0 if not missing else 1)
PY
rc=$?
rm -f "$T"
exit $rc
