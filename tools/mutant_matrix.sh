#!/bin/bash
# tools/mutant_matrix.sh [tier] — every seeded change against its own property's check; records detected_by in meta.json
T="${1:-quick}"
cd /verif
for d in ${MATRIX_ONLY:-seeded/*/}; do
  name=$(basename $d)
  prop=$(python3 -c "import json;print(json.load(open('$d/meta.json'))['property'])")
  extra=$(python3 -c "import json;print(' '.join(json.load(open('$d/meta.json')).get('also_run',[])))")
  res=$(tools/mutant.sh $d/patch.diff $T $prop $extra 2>&1)
  det=$(echo "$res" | grep '^== ' | awk '{ if ($3 != "rc=0") print $2 }' | tr '\n' ' ')
  echo "$name: detected_by=[$det] $(echo "$res" | grep -c APPLY-FAILED | sed 's/^0$//;s/^1$/APPLY-FAILED/')"
  python3 - "$d/meta.json" "$T" $det <<'PY'
import json,sys
p=sys.argv[1]; m=json.load(open(p)); tier=sys.argv[2]
m.setdefault('detected_by',[])
m['detected_by']=sorted(set(m['detected_by'])|set(sys.argv[3:]))
m['last_matrix_tier']=tier
json.dump(m,open(p,'w'),indent=1)
PY
done
