#!/opt/veriftools/pyvenv/bin/python
"""Validate MANIFEST.json and every evidence file against the schemas."""
import json, sys, glob, jsonschema
rc = 0
m = json.load(open('/verif/MANIFEST.json'))
jsonschema.validate(m, json.load(open('/root/.vp/MANIFEST.schema.json')))
print("MANIFEST ok:", len(m['checks']), "checks;", len(m.get('not_applicable', [])), "not_applicable")
es = json.load(open('/root/.vp/EVIDENCE.schema.json'))
for f in sorted(glob.glob('/verif/evidence/*.json')):
    try:
        jsonschema.validate(json.load(open(f)), es)
        print("ok", f)
    except Exception as e:
        rc = 1
        print("INVALID", f, str(e)[:300])
ids = {c['property_id'] for c in m['checks']} | {n['property_id'] for n in m.get('not_applicable', [])}
props = [json.loads(l)['id'] for l in open('/verif/properties.jsonl')]
miss = [p for p in props if p not in ids]
if miss:
    print("properties neither claimed nor not_applicable:", miss); rc = 1
sys.exit(rc)
