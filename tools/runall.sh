#!/bin/bash
# tools/runall.sh [tier] — run every claimed check once, print the summary lines.
T="${1:-quick}"
cd /verif
for id in $(python3 -c "import json;print(' '.join(c['property_id'] for c in json.load(open('MANIFEST.json'))['checks']))"); do
  out=$(./run.sh $id $T 2>&1); rc=$?
  echo "rc=$rc $(echo "$out" | tail -1 | cut -c1-220)"
  if [ $rc -ne 0 ]; then echo "$out" | grep -A3 -m3 "VIOLATION\|INTERNAL" | cut -c1-300; fi
done
