#!/bin/bash
# tools/c18_variants.sh <once|goodlock|dcl|plaincounter|deadlock>
# Validation of C18's lock/happens-before model: rewrites ion/fields.go's fieldsFor in /repo's
# working tree into a cached variant (two correct, three broken), runs C18 quick, restores /repo.
#   once, goodlock  -> correct synchronisation: C18 must stay silent
#   dcl             -> double-checked locking without a lock on the fast path: conflict
#   plaincounter    -> counter read atomically but incremented plainly: conflict
#   deadlock        -> two mutexes taken in opposite orders: deadlock
export GOFLAGS=-mod=mod GOPROXY=off GOSUMDB=off GOTOOLCHAIN=local
trap 'git -C /repo checkout -- .' EXIT
cd /repo && python3 - "$1" <<'EOF' || exit 2
import sys
p='/repo/ion/fields.go'
s=open(p).read()
s=s.replace('''	"strings"
)''','''	"strings"
	"sync"
	"sync/atomic"
)''',1)
old='''func fieldsFor(t reflect.Type) []field {
	fldr := fielder{index: map[string]bool{}}
	fldr.inspect(t, nil)
	return fldr.fields
}'''
assert s.count(old)==1
v=sys.argv[1]
new={
'once':'''var (
	fieldOnce  sync.Once
	fieldMu    sync.Mutex
	fieldCache map[reflect.Type][]field
	fieldHits  int64
)

func fieldsFor(t reflect.Type) []field {
	fieldOnce.Do(func() { fieldCache = map[reflect.Type][]field{} })
	atomic.AddInt64(&fieldHits, 1)
	fieldMu.Lock()
	defer fieldMu.Unlock()
	if f, ok := fieldCache[t]; ok {
		return f
	}
	fldr := fielder{index: map[string]bool{}}
	fldr.inspect(t, nil)
	fieldCache[t] = fldr.fields
	_ = atomic.LoadInt64(&fieldHits)
	return fldr.fields
}''',
'goodlock':'''var (
	fieldMu    sync.RWMutex
	fieldCache = map[reflect.Type][]field{}
	fieldDummy int64
)

func fieldsFor(t reflect.Type) []field {
	fieldMu.RLock()
	f, ok := fieldCache[t]
	fieldMu.RUnlock()
	if ok {
		return f
	}
	fldr := fielder{index: map[string]bool{}}
	fldr.inspect(t, nil)
	fieldMu.Lock()
	fieldCache[t] = fldr.fields
	fieldMu.Unlock()
	_ = atomic.LoadInt64(&fieldDummy)
	return fldr.fields
}''',
'dcl':'''var (
	fieldMu    sync.Mutex
	fieldCache = map[reflect.Type][]field{}
	fieldHits  int64
)

func fieldsFor(t reflect.Type) []field {
	_ = atomic.LoadInt64(&fieldHits)
	if f, ok := fieldCache[t]; ok {
		return f
	}
	fieldMu.Lock()
	defer fieldMu.Unlock()
	fldr := fielder{index: map[string]bool{}}
	fldr.inspect(t, nil)
	fieldCache[t] = fldr.fields
	return fldr.fields
}''',
'plaincounter':'''var (
	fieldMu   sync.Mutex
	fieldHits int64
)

func fieldsFor(t reflect.Type) []field {
	fieldMu.Lock()
	fieldMu.Unlock()
	if atomic.LoadInt64(&fieldHits) >= 0 {
		fieldHits++
	}
	fldr := fielder{index: map[string]bool{}}
	fldr.inspect(t, nil)
	return fldr.fields
}''',
'deadlock':'''var (
	fieldMuA, fieldMuB sync.Mutex
	fieldFlip          int64
)

func fieldsFor(t reflect.Type) []field {
	if atomic.AddInt64(&fieldFlip, 1)%2 == 1 {
		fieldMuA.Lock()
		fieldMuB.Lock()
		fieldMuB.Unlock()
		fieldMuA.Unlock()
	} else {
		fieldMuB.Lock()
		fieldMuA.Lock()
		fieldMuA.Unlock()
		fieldMuB.Unlock()
	}
	fldr := fielder{index: map[string]bool{}}
	fldr.inspect(t, nil)
	return fldr.fields
}'''}[v]
open(p,'w').write(s.replace(old,new))
EOF
go build ./ion || { echo BUILD-FAIL; exit 2; }
cd /verif
timeout ${VARIANT_TIMEOUT:-900} ./run.sh C18 quick 2>&1 | grep -v "^\s*/\|^goroutine\|^\s*$" | tail -${VARIANT_TAIL:-6} | cut -c1-260
python3 -c "
import json;d=json.load(open('/verif/evidence/C18.json'));i=d['coverage']['instrumentation'];print('sync sites',i['SyncSites'],'unmodelled',i['Unmodelled'])"
