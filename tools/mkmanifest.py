#!/usr/bin/env python3
"""Regenerates /verif/MANIFEST.json from the table below (run after adding a check)."""
import json, subprocess
HOOK_COMMITS = subprocess.run(['git','-C','/repo','log','--format=%H','--grep=^verif hooks'],capture_output=True,text=True).stdout.split()
CLAIMED = {
 # id: (design_ref, level text, level_note, technique)
 "C01": ("§7 C01", "Bounded exhaustive exploration of the real Writer->Reader path: every case of a product alphabet (boundary scalars x annotation sets x contexts, all ordered pairs of token classes, all small container shapes, boundary payload lengths, symbol-count boundaries) in each of the three writer modes, with <=d deviations in Writer entry point, compared in the Ion data model. No case inside the alphabet breaks the round trip except the listed known finding.",
         "Trusts refmodel equality and the drive adapters; values outside the alphabet, deeper nesting and longer sequences are not covered.",
         "stateless choice-tree enumeration (deviation-bounded) of value sequences on the real Writer and Reader vs an independent data-model oracle"),
 "C02": ("§7 C02", "Bounded exhaustive exploration of the real text Reader over every rendering an independent spec-derived printer can produce with <=d spelling deviations per document (trivia incl. comments/VT/FF at every gap, radix/underscore, exponent forms, string forms and every escape style, symbol forms, field-name forms, lob forms, trailing commas); each full traversal compared with the printed model.",
         "Trusts reftext (printer; its parser re-reads every rendering in selfcheck) and refmodel. Renderings with more than d simultaneous deviations are not covered.",
         "deviation-bounded enumeration of spelling choices (stateless choice-tree explorer) replayed on the real Reader"),
 "C03": ("§7 C03", "Bounded exhaustive exploration of the real binary Reader over every encoding an independent spec-derived encoder can produce with <=d deviations from canonical form, for every document of the corpus; each full traversal compared value-by-value with the encoded model.",
         "Trusts refbin (encoder) and refmodel; the encoder's own round trip through the independent strict decoder is re-checked by `run.sh selfcheck`. Encodings with more than d simultaneous deviations are not covered.",
         "deviation-bounded enumeration of representation choices (stateless choice-tree explorer) replayed on the real Reader"),
 "C04": ("§7 C04", "Every output the real Writers produce for the C01 alphabet is judged only by independent decoders (strict binary validator / text grammar parser + symbol context machine), and every integer codec is enumerated over 0..2^16 and all 2^k±2 with length-function/bytes agreement.",
         "Trusts refbin, reftext and refsym; ion-go's Reader is never consulted.",
         "exhaustive enumeration of writer inputs and codec arguments on the implementation, outputs validated by an independent reference decoder"),
 "C15": ("§7 C15", "The full product of calendar boundary dates x precisions x times x offsets (incl. those crossing UTC year 0/10000) x fraction digit counts and coefficients is pushed through the Go constructor, String, ParseTimestamp, both writers and readers and every reference binary encoding; plus a rejection catalogue in text and binary, sub-nanosecond rounding around every half-unit boundary, and ordered pairs of timestamps in one stream.",
         "Trusts refmodel's calendar arithmetic (no time.Time) and the reference codecs; dates outside the grid are not covered.",
         "explicit enumeration of a boundary grid on the implementation vs an independent calendar model"),
 "C16": ("§7 C16", "Every entry of a 36-type table (all supported kinds, tag options, embedding shapes, nil vs empty collections, Ion-specific types) x every boundary value x 8 wrappers x 4 marshal/unmarshal entry points: the bytes are decoded by the independent decoder and compared with an independently computed Ion image of the Go value, then unmarshalled into a fresh value of the same type and compared, and MarshalText is run twice.",
         "Trusts the image function (an independent walk over values and tags) and refmodel; types outside the table and deeper wrapper nesting are not covered.",
         "explicit enumeration of a type x value x wrapper x API product on the implementation vs an independent mapping model"),
 "C17": ("§7 C17", "The full matrix of 86 Ion values x 38 Go target types x 4 unmarshal entry points, judged by the documented mapping table (must succeed and image back / must return an error / not judged), hand-written struct-target cells, and Decoder streams of 0..3 values followed by two extra calls (ErrNoInput); a panic anywhere is a violation.",
         "The godoc mapping table is the specification; conversions it does not mention are exercised for panics only.",
         "explicit enumeration of the value x target x API matrix on the implementation vs a table-driven reference"),
 "C19": ("§7 C19", "Environment answers as explorer choices: every Read of an instrumented io.Reader (all chunkings of short documents, all chunkings with <=d split points of long ones, byte-at-a-time, data together with EOF) and a persistent read failure after every byte offset; every Write of an instrumented io.Writer failing at every write-call index in two failure shapes, for three writer modes; results compared with the whole-buffer run and with the error-propagation clauses of the property.",
         "bufio sits between the instrumented reader and ion-go as in NewReader; more than d split points on long documents are not covered.",
         "exhaustive enumeration of environment answers (chunk boundaries, fault points) under a deviation bound, on the implementation"),
 "C20": ("§7 C20", "The command is rebuilt from /repo and run as a subprocess on every document of a corpus (all catalogue scalars, token-class representatives in annotation/field/nesting contexts, every typed null, all small shapes) in text and binary x five output formats x two input routes, plus the C07 catalogue of invalid inputs; outputs are decoded by the independent decoders (or matched event by event against the expected event list) and the error report is parsed.",
         "Trusts the reference codecs and the event expectation derived from the model; documents outside the corpus are not covered; the 60 s timeout is only a hang backstop.",
         "exhaustive enumeration of a document x format x route product, each executed as a real subprocess and judged by an independent decoder"),
 "C18": ("§7 C18", "Stateless schedule exploration of the real code under a cooperative scheduler: package ion is re-instrumented from the current sources on every run (every access to package-level variables and to fields of the shareable symbol-table/catalog types is a scheduling point and an access record, as is every io.Writer.Write of the harness); for five 3-thread scenarios forced to meet on shared objects ALL schedules with <=d preemptions are executed, each checked for per-thread output equality with the solo run and for conflicting access pairs. A free-running -race pass of the same bodies complements it.",
         "Shared state outside the instrumented type set and memory-model effects are visible to the race pass only; scenarios with more threads or operations are not covered.",
         "stateless model checking of thread interleavings (preemption-bounded, controlled scheduler over instrumented accesses) + conflict monitor"),
 "C05": ("§7 C05", "Source documents produced by the reference printer/encoder (the whole value generator, plus every history of <=4 symbol-table events under five catalogs) in text and binary are copied by the documented copy loop into text, pretty and binary Writers; the independent decoder must read back the values the reference context machine assigns to the source, symbols compared by text.",
         "Trusts refsym/refbin/reftext; longer histories are not covered; symbols whose text the source does not know are judged on histories of <=3 events (known findings).",
         "explicit enumeration of source histories x destinations, replayed through the real Reader and Writer, judged by an independent decoder"),
 "C06": ("§7 C06", "Exhaustive enumeration of hostile inputs (all short byte strings in both formats, every slot of a symbol table x every odd value, every type code x extreme declared lengths/exponents/IDs, every byte position of seed documents x substitutions, deep nesting) x six fixed drivers covering Reader navigation with every accessor, Decoder and Unmarshal into 18 target types, run in isolated worker processes under an address-space limit: no panic, no worker death, a deterministic call budget (hang) and a heap-allocation budget proportional to the input.",
         "Allocation is measured with runtime/metrics; a worker death is attributed to the case announced before it started; inputs outside the enumerated families are not covered.",
         "exhaustive enumeration of short inputs and single faults x a fixed driver set on the implementation, with crash/hang/allocation monitors"),
 "C07": ("§7 C07", "A hand catalogue of spec-invalid inputs in several contexts plus EVERY single truncation, deletion, duplication, insertion (24 characters) and substitution (11 byte values) at every position of every seed document in text and binary: whenever the independent reference rejects the edited input, a full traversal by the real Reader must end in an error that stays (five more Next calls, identical Err); edits that stay valid are compared value-by-value instead.",
         "The references decide what is malformed (constructs the specification leaves open are never judged); pairs of edits and other seed documents are not covered.",
         "exhaustive single-fault enumeration over every position of every seed input, replayed on the implementation against an independent validator"),
 "C08": ("§7 C08", "Bounded exhaustive exploration of navigation programs on the real text and binary Readers: every program that departs from the plain full traversal in at most d steps (skip, early step-out, refused calls, wrong/right accessors, calls past the end), combined with one spelling/encoding deviation, plus every program of bounded length over the 4-op alphabet on small documents; after every step all observations are compared with a reference cursor over the forest the same Reader produced in its own plain traversal.",
         "Differential oracle: value-decoding defects are C02/C03's concern; programs with more than d deviations and longer free programs are not covered.",
         "deviation-bounded enumeration of call sequences (navigation programs) on the implementation, lock-step with a reference cursor"),
 "C09": ("§7 C09", "Every import list (each table adjusted to every max_id) x every local symbol list of a small alphabet, built three ways (constructor, Reader with catalogs incl. placeholders, builder under every Add sequence), with a complete query sweep (every ID 0..MaxID+2, every text) compared with a reference slot list; earlier answers re-asked after every Add.",
         "Trusts refsym's 40-line slot list; tables larger than the pool and more imports than the bound are not covered.",
         "explicit enumeration of configurations and operation sequences on the implementation vs a reference model, step by step"),
 "C10": ("§7 C10", "Every stream that interleaves version markers, replacing/appending/importing symbol tables (all max_id cases) and user values referencing boundary SIDs, up to L events, under five catalogs, in text and binary, is read by the real Reader and compared value-by-value (text, unknown-text SIDs, MaxID at each value, error placement) with the reference context machine.",
         "Trusts refsym/refbin/reftext; longer histories and other import shapes are not covered.",
         "explicit enumeration of event histories up to a depth replayed on the implementation, lock-step with a reference state machine"),
 "C11": ("§7 C11", "Every shared-table set (all adjusted max_ids) x every short sequence of symbol usages drawn from inside/outside/overlapping those tables x four binary writer entry points is executed on the real writers; the bytes are decoded raw by the independent decoder and every clause of the property (declared imports, lowest-ID use, minimal locals, catalog dependence, fixed-table rejection and stickiness) is evaluated.",
         "Trusts refbin/refsym; longer value sequences and larger tables are not covered.",
         "explicit enumeration of configurations x operation sequences on the implementation, output judged by an independent decoder"),
 "C12": ("§7 C12", "Every Writer call sequence up to length L over a 14-call alphabet (legal and illegal), in four writer configurations, is executed on the real Writers: no panic, errors are sticky, output is deterministic, and whenever the final Finish returns nil the bytes are valid under an independent decoder and equal the stream a reference automaton builds from the successful calls. The whole sequence space below the bound is covered.",
         "Trusts the refwriter automaton and the independent decoders; sequences longer than L and calls outside the alphabet are not covered.",
         "explicit enumeration of all operation sequences up to a depth on the implementation, lock-step with a reference protocol automaton"),
 "C13": ("§7 C13", "Exhaustive enumeration on the real code of: every boundary integer and every integer of a dense small range through six carriers and all four integer accessors; the full type x nullness x accessor matrix in both formats; floats over all exponents x mantissa patterns around the float32 cut; the integer codecs composed with their decoders at every power-of-two boundary; symbol IDs at encoding boundaries up to 2^32. Each result compared with exact arithmetic.",
         "Trusts math/big and IEEE bit conversions; integers beyond 2^80, mantissa patterns outside the enumerated set are not covered.",
         "explicit enumeration of inputs x accessors on the implementation vs exact arithmetic"),
 "C14": ("§7 C14", "Bounded exhaustive exploration of the real Decimal code: every decimal of a boundary grid through every unary operation and argument, every ordered pair through Add/Sub/Mul/Cmp/Equal, every literal spelling of a product alphabet through ParseDecimal, each compared with exact integer arithmetic. Coverage statement, not a sample: no case inside the grid violates the property.",
         "Trusts math/big and the 30-line reference literal grammar; values outside the grid (other coefficients, exponent gaps above the bound) are not covered.",
         "explicit enumeration of the operand/operation choice tree on the implementation (stateless explorer) vs exact-arithmetic reference"),
}
NOT_YET = "not claimed"
props=[json.loads(l) for l in open('/verif/properties.jsonl')]
checks=[]; na=[]
for p in props:
    i=p['id']
    if i in CLAIMED:
        ref,text,note,tech=CLAIMED[i]
        checks.append({"property_id":i,"quick_cmd":f"./run.sh {i} quick","thorough_cmd":f"./run.sh {i} thorough",
          "evidence_file":f"/verif/evidence/{i}.json","replay_cmd_template":"./run.sh replay {path}","engine":"mc",
          "level_claimed":{"category":"model_checking","text":text,"design_ref":ref},"level_note":note,"technique":tech})
    else:
        na.append({"property_id":i,"reason":NOT_YET})
m={"version":1,
 "setup_cmd":"./run.sh setup",
 "hooks":{"guard":"verif (Go build tag)","enable":"go build -tags verif (run.sh does this for every check)",
   "baseline_off_cmd":"/verif/tools/baseline.sh /repo","source_commits":HOOK_COMMITS,"add_only":True},
 "engines":[{"name":"mc","path":"/verif/internal/mc","serves_properties":sorted(CLAIMED),
   "kind_free_text":"hand-written stateless choice-tree explorer (Pick/Dev/Shard points, deviation bounding, process sharding, replay, choice-vector shrinking) running the real ion-go code against independent reference oracles"}],
 "checks":checks,"not_applicable":na,
 "notes":"All checks rebuild cmd/vp with -tags verif against /repo's working tree on every invocation (run.sh). Exit 0 = held (KNOWN-FINDING lines possible), 1 = VIOLATION, 2 = internal error."}
json.dump(m,open('/verif/MANIFEST.json','w'),indent=1)
print("wrote MANIFEST.json:",len(checks),"claimed,",len(na),"not_applicable")
