module verif

go 1.23

require github.com/amzn/ion-go v0.0.0

replace github.com/amzn/ion-go => /repo
