#!/bin/bash
# run.sh <ID> <quick|thorough> | replay <file> | selfcheck | setup
# Rebuilds cmd/vp with -tags verif against /repo's current working tree, then runs it.
set -u
cd "$(dirname "$0")"
export VERIF_DIR="$PWD"
export GOFLAGS=-mod=mod GOPROXY=off GOSUMDB=off GOTOOLCHAIN=local
export GOCACHE="${GOCACHE:-$HOME/.cache/go-build}"
B="$PWD/.build/bin-$$"
mkdir -p "$B"
trap 'rm -rf "$B"' EXIT
cp /repo/go.sum go.sum 2>/dev/null
if ! go build -tags verif -o "$B/vp" ./cmd/vp 2>"$B/build.log"; then
  echo "INTERNAL build failed:" >&2; cat "$B/build.log" >&2
  exit 2
fi
case "${1:-}" in
  setup)
    # warm the build cache for the variants the checks build themselves (race detector, CLI)
    go build -race -tags verif -o "$B/vp-race" ./cmd/vp >/dev/null 2>&1
    (cd /repo && go build -o "$B/ion-go-cli" ./cmd/ion-go >/dev/null 2>&1)
    "$B/vp" selfcheck; exit $? ;;
  selfcheck)
    "$B/vp" selfcheck; exit $? ;;
  replay)
    "$B/vp" replay "$2"; exit $? ;;
  list)
    "$B/vp" list; exit $? ;;
  *)
    "$B/vp" check "$1" "${2:-${VERIF_TIER:-quick}}"; exit $? ;;
esac
