package reftext

import (
	"encoding/base64"
	"fmt"
	"math"
	"math/big"
	"strconv"
	"strings"

	"verif/internal/refmodel"
)

// Dev points asked by Print (alternative 0 is always the canonical spelling):
//
//	"ws"          n=9  trivia between tokens. Index order:
//	                   0 default (nothing, or one space where a separator is required)
//	                   1 " " (two spaces where a separator is required)
//	                   2 "\n"   3 "\r\n"   4 "\t"   5 "/*c*/"   6 "//c\n"
//	                   7 "\x0b" (VT)   8 "\x0c" (FF)      <- always the last two
//	"null.form"   n=2  null | null.null
//	"int.radix"   n=4  decimal | 0x lower | 0X upper | 0b
//	"int.us"      n=2  '_' between the first two digits (only when >= 2 digits)
//	"dec.form"    n=2  <coef>d<exp> | positional (1.23, 5.) (only when -64 <= exp <= 0)
//	"dec.D"       n=2  d | D                  (exponent form only)
//	"dec.plus"    n=2  explicit '+' exponent  (exponent form, exp >= 0)
//	"float.E"     n=2  e | E
//	"float.plus"  n=2  explicit '+' exponent  (exp >= 0)
//	"ts.zform"    n=2  Z | +00:00             (known offset 0)
//	"ts.dayT"     n=2  YYYY-MM-DD | YYYY-MM-DDT
//	"str.form"    n=3  "…" | '''…''' | '''…''' '''…''' split at the middle rune
//	                   (not asked when the previous sibling is a long string: they would concatenate)
//	"esc"         n<=4 spelling of the first character of a non-empty string: 0 minimal, then the
//	                   applicable ones of \xHH (<=U+FF), \uHHHH (<=U+FFFF), \UHHHHHHHH, \uD8xx\uDCxx (astral)
//	"cont"        n=2  backslash-newline continuation after the first character (short form only)
//	"sym.quote"   n=2  bare identifier | quoted     (only when bare is legal)
//	"sym.op"      n=2  quoted | bare operator       (unannotated sexp element made of operator chars)
//	"field.form"  n=3  symbol spelling | "name" | '''name'''   (only when the name has text)
//	"blob.ws"     n=2  a space after the 2nd base64 character (non-empty blobs)
//	"blob.nl"     n=2  newline before }}
//	"clob.form"   n=3  {{"…"}} | {{'''…'''}} | {{'''…''' '''…'''}}
//	"trailing"    n=2  trailing comma in a non-empty list / struct
//
// A Sym with Quoted set is always printed quoted (so '$ion_1_0' stays an ordinary symbol).
var trivia = [...]string{"", " ", "\n", "\r\n", "\t", "/*c*/", "//c\n", "\x0b", "\x0c", "\r", "//c\r", "//c\r\n", "/*\r*//**/"}

type printer struct {
	ch       refmodel.Chooser
	out      []byte
	prevLong bool // the last non-trivia token was a long-form string
}

// Print renders vals as Ion text. Every spelling freedom is requested from ch:
//
//	ch.Dev(label, n) — alternative 0 is the canonical spelling; 1..n-1 are alternative legal spellings.
//
// With refmodel.Canon{} it prints one canonical, unambiguous, compact form.
func Print(ch refmodel.Chooser, vals []*refmodel.Value) []byte {
	p := &printer{ch: ch}
	for i, v := range vals {
		p.ws(i > 0)
		p.value(v, false)
	}
	p.ws(false)
	return p.out
}

func (p *printer) dev(label string, n int) int {
	if n <= 1 {
		return 0
	}
	if k := p.ch.Dev(label, n); k > 0 && k < n {
		return k
	}
	return 0
}

func (p *printer) ws(required bool) {
	s := trivia[p.dev("ws", len(trivia))]
	if required && strings.TrimLeft(s, " ") == "" {
		s += " "
	}
	p.out = append(p.out, s...)
}

func (p *printer) tok(s string) {
	p.out = append(p.out, s...)
	p.prevLong = false
}

func (p *printer) value(v *refmodel.Value, inSexp bool) {
	for _, a := range v.Annots {
		p.sym(a)
		p.ws(false)
		p.tok("::")
		p.ws(false)
	}
	if v.Null {
		switch {
		case v.Type != refmodel.Null:
			p.tok("null." + v.Type.String())
		case p.dev("null.form", 2) == 1:
			p.tok("null.null")
		default:
			p.tok("null")
		}
		return
	}
	switch v.Type {
	case refmodel.Bool:
		p.tok(strconv.FormatBool(v.Bool))
	case refmodel.Int:
		p.int(v.Int)
	case refmodel.Float:
		p.float(v.Float)
	case refmodel.Decimal:
		p.dec(v.Dec)
	case refmodel.Timestamp:
		p.ts(v.TS)
	case refmodel.Symbol:
		s := v.Sym
		if inSexp && len(v.Annots) == 0 && s.HasText && !s.Quoted && isOperatorText(s.Text) && p.dev("sym.op", 2) == 1 {
			p.tok(" " + s.Text + " ") // hard spaces keep the tokenisation independent of the trivia
			return
		}
		p.sym(s)
	case refmodel.String:
		p.str(v.Text)
	case refmodel.Clob:
		p.clob(v.Bytes)
	case refmodel.Blob:
		s := base64.StdEncoding.EncodeToString(v.Bytes)
		if len(s) > 0 && p.dev("blob.ws", 2) == 1 {
			s = s[:2] + " " + s[2:]
		}
		if p.dev("blob.nl", 2) == 1 {
			s += "\n"
		}
		p.tok("{{" + s + "}}")
	case refmodel.List:
		p.tok("[")
		for i, k := range v.Kids {
			if i > 0 {
				p.tok(",")
			}
			p.ws(false)
			p.value(k, false)
			p.ws(false)
		}
		p.trailing(len(v.Kids))
		p.tok("]")
	case refmodel.Sexp:
		p.tok("(")
		for i, k := range v.Kids {
			p.ws(i > 0)
			p.value(k, true)
		}
		p.ws(false)
		p.tok(")")
	case refmodel.Struct:
		p.tok("{")
		for i, k := range v.Kids {
			if i > 0 {
				p.tok(",")
			}
			p.ws(false)
			p.fieldName(k.Field)
			p.ws(false)
			p.tok(":")
			p.ws(false)
			p.value(k, false)
			p.ws(false)
		}
		p.trailing(len(v.Kids))
		p.tok("}")
	default:
		p.tok("null")
	}
}

// trailing emits the optional trailing comma (non-empty) or the inner trivia of an empty container.
func (p *printer) trailing(n int) {
	if n == 0 {
		p.ws(false)
	} else if p.dev("trailing", 2) == 1 {
		p.tok(",")
		p.ws(false)
	}
}

// ---- scalars ----

func (p *printer) int(n *big.Int) {
	if n == nil {
		n = new(big.Int)
	}
	base, prefix := 10, ""
	switch p.dev("int.radix", 4) {
	case 1:
		base, prefix = 16, "0x"
	case 2:
		base, prefix = 16, "0X"
	case 3:
		base, prefix = 2, "0b"
	}
	digits := new(big.Int).Abs(n).Text(base)
	if prefix == "0X" {
		digits = strings.ToUpper(digits)
	}
	if len(digits) >= 2 && p.dev("int.us", 2) == 1 {
		digits = digits[:1] + "_" + digits[1:]
	}
	sign := ""
	if n.Sign() < 0 {
		sign = "-"
	}
	p.tok(sign + prefix + digits)
}

func (p *printer) float(f float64) {
	switch {
	case math.IsNaN(f):
		p.tok("nan")
		return
	case math.IsInf(f, 1):
		p.tok("+inf")
		return
	case math.IsInf(f, -1):
		p.tok("-inf")
		return
	}
	s := strconv.FormatFloat(f, 'e', -1, 64) // e.g. "1.5e+00", "-0e+00"
	i := strings.IndexByte(s, 'e')
	exp, _ := strconv.Atoi(s[i+1:])
	p.tok(s[:i] + p.expSuffix("float", "e", int64(exp)))
}

// expSuffix asks the marker-case and explicit-plus points shared by floats and decimals.
func (p *printer) expSuffix(kind, marker string, exp int64) string {
	if p.dev(kind+"."+strings.ToUpper(marker), 2) == 1 {
		marker = strings.ToUpper(marker)
	}
	if exp >= 0 && p.dev(kind+".plus", 2) == 1 {
		marker += "+"
	}
	return marker + strconv.FormatInt(exp, 10)
}

func (p *printer) dec(d refmodel.Dec) {
	c := d.Coef
	if c == nil {
		c = new(big.Int)
	}
	sign, digits := "", new(big.Int).Abs(c).String()
	if c.Sign() < 0 || (d.NegZero && c.Sign() == 0) {
		sign = "-"
	}
	if d.Exp <= 0 && d.Exp >= -64 && p.dev("dec.form", 2) == 1 {
		k := int(-d.Exp) // number of fraction digits
		for len(digits) <= k {
			digits = "0" + digits
		}
		p.tok(sign + digits[:len(digits)-k] + "." + digits[len(digits)-k:])
		return
	}
	p.tok(sign + digits + p.expSuffix("dec", "d", d.Exp))
}

func (p *printer) ts(t refmodel.TS) {
	s := t.String()
	if t.Prec >= refmodel.PMinute && t.OffsetKnown && t.OffsetMin == 0 && p.dev("ts.zform", 2) == 1 {
		s = strings.TrimSuffix(s, "Z") + "+00:00"
	}
	if t.Prec == refmodel.PDay && p.dev("ts.dayT", 2) == 1 {
		s += "T"
	}
	p.tok(s)
}

// ---- text ----

// escRune is the minimal spelling of r inside quotes q; rawLF keeps LF raw (long forms).
func escRune(r rune, q rune, rawLF bool) string {
	switch {
	case r == '\\':
		return `\\`
	case r == q:
		return `\` + string(q)
	case r == '\n':
		if rawLF {
			return "\n"
		}
		return `\n`
	case r == '\r':
		return `\r`
	case r == '\t':
		return `\t`
	case r < 0x20 || r == 0x7f:
		return fmt.Sprintf(`\x%02x`, r)
	}
	return string(r)
}

func escText(s string, q rune, rawLF bool) string {
	var sb strings.Builder
	for _, r := range s {
		sb.WriteString(escRune(r, q, rawLF))
	}
	return sb.String()
}

// escStyles lists the escape styles applicable to r (style 0 = minimal is always first).
func escStyles(r rune) []int {
	st := []int{0}
	if r <= 0xFF {
		st = append(st, 1)
	}
	if r <= 0xFFFF {
		st = append(st, 2)
	}
	st = append(st, 3)
	if r > 0xFFFF {
		st = append(st, 4)
	}
	return st
}

func styledEsc(r rune, style int) string {
	switch style {
	case 1:
		return fmt.Sprintf(`\x%02x`, r)
	case 2:
		return fmt.Sprintf(`\u%04X`, r)
	case 3:
		return fmt.Sprintf(`\U%08x`, r)
	}
	r -= 0x10000
	return fmt.Sprintf(`\u%04X\u%04x`, 0xD800+(r>>10), 0xDC00+(r&0x3FF))
}

func (p *printer) str(text string) {
	runes := []rune(text)
	form := 0
	if !p.prevLong { // two adjacent long strings would be read as one
		form = p.dev("str.form", 3)
	}
	q := '"'
	if form > 0 {
		q = '\''
	}
	pieces := make([]string, len(runes))
	for i, r := range runes {
		pieces[i] = escRune(r, q, form > 0)
		if r == '\n' && form > 0 {
			// a raw line break in a long string may be LF, CR LF or CR: all denote U+000A
			pieces[i] = [...]string{"\n", "\r\n", "\r", `\n`}[p.dev("long.nl", 4)]
		}
	}
	if len(runes) > 0 {
		styles := escStyles(runes[0])
		if k := p.dev("esc", len(styles)); k > 0 {
			pieces[0] = styledEsc(runes[0], styles[k])
		}
		// an escaped line break (any of the three forms) is a continuation and denotes nothing
		pieces[0] += [...]string{"", "\\\n", "\\\r\n", "\\\r"}[p.dev("cont", 4)]
	}
	joinCR(pieces)
	switch form {
	case 0:
		p.tok(`"` + strings.Join(pieces, "") + `"`)
	case 1:
		p.tok("'''" + strings.Join(pieces, "") + "'''")
	default:
		mid := len(pieces) / 2
		p.tok("'''" + strings.Join(pieces[:mid], "") + "''' '''" + strings.Join(pieces[mid:], "") + "'''")
	}
	p.prevLong = form > 0
}

// joinCR keeps a raw CR from fusing with a raw LF that follows it (CR LF is one line break):
// such a CR is spelled CR LF itself.
func joinCR(pieces []string) {
	for i := 0; i+1 < len(pieces); i++ {
		if strings.HasSuffix(pieces[i], "\r") && strings.HasPrefix(pieces[i+1], "\n") {
			pieces[i] += "\n"
		}
	}
}

func bareOK(s string) bool {
	if s == "" || !isIdentStart(int(s[0])) {
		return false
	}
	for i := 0; i < len(s); i++ {
		if !isIdentPart(int(s[i])) {
			return false
		}
	}
	switch s {
	case "null", "true", "false", "nan":
		return false
	}
	return !(len(s) >= 2 && s[0] == '$' && strings.Trim(s[1:], "0123456789") == "") // $N-shaped
}

// isOperatorText: non-empty, only operator characters, and no comment opener inside.
func isOperatorText(s string) bool {
	for i := 0; i < len(s); i++ {
		if !isOp(int(s[i])) {
			return false
		}
	}
	return s != "" && !strings.Contains(s, "//") && !strings.Contains(s, "/*")
}

func (p *printer) sym(s refmodel.Sym) {
	switch {
	case !s.HasText:
		p.tok("$" + strconv.FormatInt(s.SID, 10))
	case !s.Quoted && bareOK(s.Text) && p.dev("sym.quote", 2) == 0:
		p.tok(s.Text)
	default:
		p.tok("'" + escText(s.Text, '\'', false) + "'")
	}
}

func (p *printer) fieldName(f *refmodel.Sym) {
	switch {
	case f == nil:
		p.tok("$0")
	case !f.HasText:
		p.sym(*f)
	default:
		switch p.dev("field.form", 3) {
		case 0:
			p.sym(*f)
		case 1:
			p.tok(`"` + escText(f.Text, '"', false) + `"`)
		case 2:
			p.tok("'''" + escText(f.Text, '\'', true) + "'''")
		}
	}
}

func (p *printer) clob(b []byte) {
	form := p.dev("clob.form", 3)
	pieces := make([]string, len(b))
	for i, c := range b {
		switch {
		case c == '\\', c == '"' && form == 0, c == '\'' && form > 0:
			pieces[i] = `\` + string(rune(c))
		case c == '\n' && form > 0:
			pieces[i] = [...]string{`\x0a`, "\n", "\r\n", "\r", `\n`}[p.dev("clob.nl", 5)]
		case c < 0x20 || c >= 0x7f:
			pieces[i] = fmt.Sprintf(`\x%02x`, c)
		default:
			pieces[i] = string(rune(c))
		}
	}
	joinCR(pieces)
	switch form {
	case 0:
		p.tok(`{{"` + strings.Join(pieces, "") + `"}}`)
	case 1:
		p.tok("{{'''" + strings.Join(pieces, "") + "'''}}")
	default:
		mid := len(pieces) / 2
		p.tok("{{'''" + strings.Join(pieces[:mid], "") + "''' '''" + strings.Join(pieces[mid:], "") + "'''}}")
	}
}
