// Package reftext is an independent reference implementation of the Ion 1.0
// text format (parser + printer with spelling choice points), written from the
// specification. It shares no code with github.com/amzn/ion-go.
package reftext

import (
	"encoding/base64"
	"fmt"
	"math"
	"math/big"
	"strconv"
	"strings"
	"unicode/utf8"

	"verif/internal/refmodel"
)

// perr is the panic payload used for ordinary syntax errors.
type perr struct {
	off int
	msg string
}

const maxDepth = 10000 // container nesting bound (guards the Go stack)

type parser struct {
	src   []byte
	pos   int
	depth int
}

// Parse parses a complete Ion 1.0 text stream and returns the top-level values in order.
// It performs NO symbol-table processing: `$ion_1_0` and `$ion_symbol_table::{…}` are
// returned as ordinary values.
func Parse(src []byte) (vals []*refmodel.Value, err error) {
	p := &parser{src: src}
	defer func() {
		if r := recover(); r != nil {
			vals = nil
			if e, ok := r.(perr); ok {
				err = fmt.Errorf("reftext: offset %d: %s", e.off, e.msg)
			} else {
				err = fmt.Errorf("reftext: internal error near offset %d: %v", p.pos, r)
			}
		}
	}()
	for {
		p.skipWS()
		if p.peek() < 0 {
			return vals, nil
		}
		vals = append(vals, p.value(false))
	}
}

// ---- low-level helpers ----

func (p *parser) fail(format string, a ...any) {
	panic(perr{p.pos, fmt.Sprintf(format, a...)})
}

func (p *parser) failAt(off int, format string, a ...any) {
	panic(perr{off, fmt.Sprintf(format, a...)})
}

func (p *parser) peek() int { return p.at(0) }

func (p *parser) at(i int) int {
	if p.pos+i >= len(p.src) {
		return -1
	}
	return int(p.src[p.pos+i])
}

func (p *parser) has(s string) bool {
	if p.pos+len(s) > len(p.src) {
		return false
	}
	return string(p.src[p.pos:p.pos+len(s)]) == s
}

func (p *parser) eat(c byte) bool {
	if p.peek() == int(c) {
		p.pos++
		return true
	}
	return false
}

func (p *parser) expect(c byte, what string) {
	if !p.eat(c) {
		p.fail("expected %q %s", c, what)
	}
}

func isWS(c int) bool       { return c == ' ' || (c >= 9 && c <= 13) } // tab LF VT FF CR space
func isDigit(c int) bool    { return c >= '0' && c <= '9' }
func isHexDigit(c int) bool { return isDigit(c) || (c >= 'a' && c <= 'f') || (c >= 'A' && c <= 'F') }
func isBinDigit(c int) bool { return c == '0' || c == '1' }
func isIdentStart(c int) bool {
	return c == '$' || c == '_' || (c >= 'a' && c <= 'z') || (c >= 'A' && c <= 'Z')
}
func isIdentPart(c int) bool { return isIdentStart(c) || isDigit(c) }
func isOp(c int) bool        { return c > 0 && strings.IndexByte("!#%&*+-./;<=>?@^`|~", byte(c)) >= 0 }

// skipPlainWS skips whitespace only (used inside {{ }} where comments are illegal).
func (p *parser) skipPlainWS() {
	for isWS(p.peek()) {
		p.pos++
	}
}

// skipWS skips whitespace and comments.
func (p *parser) skipWS() {
	for {
		c := p.peek()
		switch {
		case isWS(c):
			p.pos++
		case c == '/' && p.at(1) == '/':
			p.pos += 2
			for p.peek() >= 0 && p.peek() != '\n' && p.peek() != '\r' {
				p.pos++
			}
		case c == '/' && p.at(1) == '*':
			start := p.pos
			p.pos += 2
			for !p.has("*/") {
				if p.peek() < 0 {
					p.failAt(start, "unterminated block comment")
				}
				p.pos++
			}
			p.pos += 2
		default:
			return
		}
	}
}

// atStop reports whether the input is at a numeric stop character (or EOF).
func (p *parser) atStop() bool {
	c := p.peek()
	if c < 0 || isWS(c) || strings.IndexByte("{}[](),\"'", byte(c)) >= 0 {
		return true
	}
	return c == '/' && (p.at(1) == '/' || p.at(1) == '*')
}

func (p *parser) needStop(what string) {
	if !p.atStop() {
		p.fail("%s must be followed by a delimiter, found %q", what, rune(p.peek()))
	}
}

// annotMark consumes `::` (after optional whitespace/comments) if present.
func (p *parser) annotMark() bool {
	save := p.pos
	p.skipWS()
	if p.has("::") {
		p.pos += 2
		return true
	}
	p.pos = save
	return false
}

// ---- values ----

// value parses annotations and one value. inSexp enables operator symbols.
func (p *parser) value(inSexp bool) *refmodel.Value {
	var annots []refmodel.Sym
	for {
		p.skipWS()
		c := p.peek()
		var v *refmodel.Value
		switch {
		case c < 0:
			p.fail("unexpected end of input, expected a value")
		case c == '"':
			v = refmodel.StrV(string(p.quoted('"', false)))
		case c == '\'' && p.has("'''"):
			v = refmodel.StrV(string(p.longs(false)))
		case c == '\'':
			s := refmodel.Sym{Text: string(p.quoted('\'', false)), HasText: true, Quoted: true}
			if p.annotMark() {
				annots = append(annots, s)
				continue
			}
			v = refmodel.SymTok(s)
		case c == '{' && p.at(1) == '{':
			v = p.lob()
		case c == '{':
			v = p.structure()
		case c == '[':
			v = p.list()
		case c == '(':
			v = p.sexp()
		case isDigit(c) || (c == '-' && isDigit(p.at(1))):
			v = p.number()
		case (c == '+' || c == '-') && p.infAhead():
			p.pos += 4
			v = refmodel.FloatV(math.Inf(',' - c)) // '+' is 43, '-' is 45: sign +1 / -1
		case isIdentStart(c):
			start := p.pos
			id := p.ident()
			if kw := p.keyword(id, inSexp); kw != nil {
				v = kw
				break
			}
			s := p.symOf(id, start)
			if p.annotMark() {
				annots = append(annots, s)
				continue
			}
			v = refmodel.SymTok(s)
		case inSexp && isOp(c):
			v = refmodel.SymV(p.operator())
		default:
			if len(annots) > 0 {
				p.fail("annotation must be followed by a value, found %q", rune(c))
			}
			p.fail("unexpected character %q", rune(c))
		}
		v.Annots = annots
		return v
	}
}

// infAhead: at '+' or '-', is this "+inf"/"-inf" followed by a stop character?
func (p *parser) infAhead() bool {
	if p.at(1) != 'i' || p.at(2) != 'n' || p.at(3) != 'f' {
		return false
	}
	save := p.pos
	p.pos += 4
	ok := p.atStop()
	p.pos = save
	return ok
}

func (p *parser) ident() string {
	start := p.pos
	for isIdentPart(p.peek()) {
		p.pos++
	}
	return string(p.src[start:p.pos])
}

// symOf turns an identifier into a symbol token; `$<digits>` is a symbol-ID reference.
func (p *parser) symOf(id string, start int) refmodel.Sym {
	if len(id) >= 2 && id[0] == '$' && strings.Trim(id[1:], "0123456789") == "" {
		n, err := strconv.ParseInt(id[1:], 10, 64)
		if err != nil {
			p.failAt(start, "symbol ID %s out of range", id)
		}
		return refmodel.NoText(n)
	}
	return refmodel.T(id)
}

// keyword handles null / null.T / true / false / nan once the identifier has been read.
// Returns nil if id is not a keyword.
func (p *parser) keyword(id string, inSexp bool) *refmodel.Value {
	var v *refmodel.Value
	switch id {
	case "null":
		v = refmodel.NullOf(refmodel.Null)
		if p.eat('.') { // no whitespace allowed on either side of the dot
			st := p.pos
			name := p.ident()
			t, ok := refmodel.TypeByName(name)
			if !ok {
				p.failAt(st, "invalid type name %q after null.", name)
			}
			v = refmodel.NullOf(t)
		}
	case "true", "false":
		v = refmodel.BoolV(id == "true")
	case "nan":
		v = refmodel.FloatV(math.NaN())
	default:
		return nil
	}
	// Inside an s-expression an operator may follow a keyword directly ((true.) is true then '.'):
	// the stop-character rule of the specification speaks of numbers and timestamps only.
	if !(inSexp && isOp(p.peek())) {
		p.needStop("keyword " + id)
	}
	return v
}

// operator consumes a maximal run of operator characters, stopping before a comment opener.
func (p *parser) operator() string {
	start := p.pos
	for isOp(p.peek()) {
		if p.peek() == '/' && (p.at(1) == '/' || p.at(1) == '*') {
			break
		}
		p.pos++
	}
	return string(p.src[start:p.pos])
}

// ---- numbers and timestamps ----

// digits reads `D (_? D)*` and returns the digits without underscores.
func (p *parser) digits(pred func(int) bool, what string) string {
	if !pred(p.peek()) {
		p.fail("expected %s digit", what)
	}
	var out []byte
	for {
		c := p.peek()
		if pred(c) {
			out = append(out, byte(c))
			p.pos++
		} else if c == '_' && pred(p.at(1)) {
			p.pos++
		} else {
			return string(out)
		}
	}
}

func (p *parser) number() *refmodel.Value {
	start := p.pos
	neg := p.eat('-')
	if !neg && isDigit(p.at(1)) && isDigit(p.at(2)) && isDigit(p.at(3)) && (p.at(4) == '-' || p.at(4) == 'T') {
		return p.timestamp()
	}
	if p.peek() == '0' && strings.ContainsRune("xXbB", rune(p.at(1))) && p.at(1) > 0 {
		base, pred, what := 16, isHexDigit, "hex"
		if p.at(1) == 'b' || p.at(1) == 'B' {
			base, pred, what = 2, isBinDigit, "binary"
		}
		p.pos += 2
		n, _ := new(big.Int).SetString(p.digits(pred, what), base)
		p.needStop("integer")
		if neg {
			n.Neg(n)
		}
		return refmodel.BigV(n)
	}
	ip := p.digits(isDigit, "decimal")
	if len(ip) > 1 && ip[0] == '0' {
		p.failAt(start, "leading zeros are not allowed")
	}
	kind, frac, exp := 'i', "", ""
	if p.eat('.') {
		kind = 'd'
		if isDigit(p.peek()) {
			frac = p.digits(isDigit, "decimal")
		}
	}
	if c := p.peek(); c == 'd' || c == 'D' || c == 'e' || c == 'E' {
		kind = 'd'
		if c == 'e' || c == 'E' {
			kind = 'f'
		}
		p.pos++
		if p.peek() == '+' || p.peek() == '-' {
			if p.peek() == '-' {
				exp = "-"
			}
			p.pos++
		}
		st := p.pos
		for isDigit(p.peek()) { // no underscores in exponents
			p.pos++
		}
		if st == p.pos {
			p.fail("expected exponent digits")
		}
		exp += string(p.src[st:p.pos])
	}
	p.needStop("number")
	switch kind {
	case 'i':
		n, _ := new(big.Int).SetString(ip, 10)
		if neg {
			n.Neg(n)
		}
		return refmodel.BigV(n)
	case 'f':
		s := ip
		if neg {
			s = "-" + s
		}
		if frac != "" {
			s += "." + frac
		}
		if exp != "" {
			s += "e" + exp
		}
		f, err := strconv.ParseFloat(s, 64) // ErrRange still yields the IEEE result (±Inf / 0)
		if err != nil && !strings.Contains(err.Error(), "range") {
			p.failAt(start, "bad float %q", s)
		}
		return refmodel.FloatV(f)
	}
	coef, _ := new(big.Int).SetString(ip+frac, 10)
	e := new(big.Int)
	if exp != "" {
		e.SetString(exp, 10)
	}
	e.Sub(e, big.NewInt(int64(len(frac))))
	if !e.IsInt64() {
		p.failAt(start, "decimal exponent out of range")
	}
	nz := neg && coef.Sign() == 0
	if neg {
		coef.Neg(coef)
	}
	return refmodel.DecV(coef, e.Int64(), nz)
}

// fixed reads exactly n decimal digits.
func (p *parser) fixed(n int, what string) int {
	v := 0
	for i := 0; i < n; i++ {
		if !isDigit(p.peek()) {
			p.fail("expected %d-digit %s", n, what)
		}
		v = v*10 + p.peek() - '0'
		p.pos++
	}
	return v
}

// timestamp parses at YYYY (caller checked 4 digits followed by '-' or 'T').
func (p *parser) timestamp() *refmodel.Value {
	start := p.pos
	var t refmodel.TS
	t.Year, t.Prec = p.fixed(4, "year"), refmodel.PYear
	if !p.eat('T') {
		p.expect('-', "after year")
		t.Month, t.Prec = p.fixed(2, "month"), refmodel.PMonth
		if !p.eat('T') {
			p.expect('-', "or 'T' after month")
			t.Day, t.Prec = p.fixed(2, "day"), refmodel.PDay
			if p.eat('T') && isDigit(p.peek()) {
				p.timeOfDay(&t)
			}
		}
	}
	p.needStop("timestamp")
	if !t.Valid() {
		p.failAt(start, "timestamp field out of range")
	}
	return refmodel.TSV(t)
}

func (p *parser) timeOfDay(t *refmodel.TS) {
	t.Hour = p.fixed(2, "hour")
	p.expect(':', "after hour")
	t.Minute, t.Prec = p.fixed(2, "minute"), refmodel.PMinute
	if p.eat(':') {
		t.Second, t.Prec = p.fixed(2, "second"), refmodel.PSecond
		if p.eat('.') {
			st := p.pos
			for isDigit(p.peek()) {
				p.pos++
			}
			if st == p.pos {
				p.fail("expected fraction digits")
			}
			t.FracDigits = p.pos - st
			t.FracCoef, _ = new(big.Int).SetString(string(p.src[st:p.pos]), 10)
		}
	}
	switch c := p.peek(); c {
	case 'Z':
		p.pos++
		t.OffsetKnown = true
	case '+', '-':
		p.pos++
		h := p.fixed(2, "offset hour")
		p.expect(':', "in offset")
		m := p.fixed(2, "offset minute")
		if h > 23 || m > 59 {
			p.fail("offset out of range")
		}
		t.OffsetMin = h*60 + m
		t.OffsetKnown = !(c == '-' && t.OffsetMin == 0) // -00:00 = unknown offset
		if c == '-' {
			t.OffsetMin = -t.OffsetMin
		}
	default:
		p.fail("timestamp with a time needs an offset (Z or ±hh:mm)")
	}
}

// ---- strings, symbols, lobs ----

func (p *parser) hex(n int) rune {
	var v rune
	for i := 0; i < n; i++ {
		c := p.peek()
		if !isHexDigit(c) {
			p.fail("expected %d hex digits in escape", n)
		}
		d, _ := strconv.ParseUint(string(rune(c)), 16, 8)
		v = v<<4 | rune(d)
		p.pos++
	}
	return v
}

// escape decodes one escape sequence (the backslash is already consumed).
// In clobs \xHH is a raw byte and \u, \U are illegal.
func (p *parser) escape(out []byte, clob bool) []byte {
	st := p.pos - 1
	c := p.peek()
	if c < 0 {
		p.failAt(st, "unterminated escape")
	}
	p.pos++
	switch c {
	case '0':
		return append(out, 0)
	case 'a':
		return append(out, 7)
	case 'b':
		return append(out, 8)
	case 't':
		return append(out, 9)
	case 'n':
		return append(out, 10)
	case 'v':
		return append(out, 11)
	case 'f':
		return append(out, 12)
	case 'r':
		return append(out, 13)
	case '"', '\'', '?', '\\', '/':
		return append(out, byte(c))
	case '\n': // line continuation
		return out
	case '\r':
		p.eat('\n')
		return out
	case 'x':
		r := p.hex(2)
		if clob {
			return append(out, byte(r))
		}
		return utf8.AppendRune(out, r)
	case 'u', 'U':
		if clob {
			p.failAt(st, "\\%c escape is not allowed in a clob", c)
		}
		if c == 'U' {
			r := p.hex(8)
			if r < 0 || r > 0x10FFFF || (r >= 0xD800 && r <= 0xDFFF) { // r < 0: eight digits starting 8..F overflow a rune
				p.failAt(st, "\\U escape is not a Unicode scalar value")
			}
			return utf8.AppendRune(out, r)
		}
		r := p.hex(4)
		if r >= 0xDC00 && r <= 0xDFFF {
			p.failAt(st, "unpaired low surrogate escape")
		}
		if r >= 0xD800 && r <= 0xDBFF { // must be immediately followed by a \uDC00-\uDFFF escape
			if !p.has("\\u") {
				p.failAt(st, "unpaired high surrogate escape")
			}
			p.pos += 2
			lo := p.hex(4)
			if lo < 0xDC00 || lo > 0xDFFF {
				p.failAt(st, "unpaired high surrogate escape")
			}
			r = 0x10000 + (r-0xD800)<<10 + (lo - 0xDC00)
		}
		return utf8.AppendRune(out, r)
	}
	p.failAt(st, "unknown escape \\%c", rune(c))
	return nil
}

// plain consumes one unescaped character of string/symbol/clob content.
func (p *parser) plain(out []byte, clob bool) []byte {
	c := p.peek()
	switch {
	case c < 0x20 && c != '\t' && c != 0x0B && c != 0x0C:
		p.fail("raw control character 0x%02x in quoted text", c)
	case c <= 0x7F: // the grammar's CLOB_SHORT_TEXT_ALLOWED runs to U+007F, so DEL is legal raw in clobs too
		p.pos++
		return append(out, byte(c))
	case clob:
		p.fail("byte 0x%02x not allowed raw in a clob", c)
	}
	r, size := utf8.DecodeRune(p.src[p.pos:])
	if r == utf8.RuneError && size <= 1 {
		p.fail("invalid UTF-8")
	}
	out = append(out, p.src[p.pos:p.pos+size]...)
	p.pos += size
	return out
}

// quoted reads "…" or '…' (q is the quote character at p.pos).
func (p *parser) quoted(q byte, clob bool) []byte {
	start := p.pos
	p.pos++
	out := []byte{}
	for {
		c := p.peek()
		switch {
		case c < 0:
			p.failAt(start, "unterminated %c-quoted text", q)
		case c == int(q):
			p.pos++
			return out
		case c == '\\':
			p.pos++
			out = p.escape(out, clob)
		case c == '\n' || c == '\r':
			p.fail("raw newline in %c-quoted text", q)
		default:
			out = p.plain(out, clob)
		}
	}
}

// longs reads one or more adjacent triple-quoted segments and concatenates them.
// Between segments: whitespace and comments (text) or whitespace only (clob).
func (p *parser) longs(clob bool) []byte {
	out := []byte{}
	for {
		start := p.pos
		p.pos += 3
	seg:
		for {
			c := p.peek()
			switch {
			case c < 0:
				p.failAt(start, "unterminated long string")
			case c == '\'' && p.has("'''"):
				p.pos += 3
				break seg
			case c == '\\':
				p.pos++
				out = p.escape(out, clob)
			case c == '\r': // CR and CRLF normalise to LF
				p.pos++
				p.eat('\n')
				out = append(out, '\n')
			case c == '\n':
				p.pos++
				out = append(out, '\n')
			default:
				out = p.plain(out, clob)
			}
		}
		save := p.pos
		if clob {
			p.skipPlainWS()
		} else {
			p.skipWS()
		}
		if !p.has("'''") {
			p.pos = save
			return out
		}
	}
}

func (p *parser) lob() *refmodel.Value {
	start := p.pos
	p.pos += 2
	p.skipPlainWS()
	if p.peek() == '"' || p.has("'''") {
		var b []byte
		if p.peek() == '"' {
			b = p.quoted('"', true)
		} else {
			b = p.longs(true)
		}
		p.skipPlainWS()
		if !p.has("}}") {
			if p.peek() < 0 {
				p.failAt(start, "unterminated clob")
			}
			p.fail("expected }} to close clob")
		}
		p.pos += 2
		return refmodel.ClobV(b)
	}
	var b64 []byte
	for {
		c := p.peek()
		switch {
		case c < 0:
			p.failAt(start, "unterminated blob")
		case isWS(c):
			p.pos++
			continue
		case c == '}':
			if p.at(1) != '}' {
				p.fail("expected }} to close blob")
			}
			p.pos += 2
		case isDigit(c) || (c >= 'a' && c <= 'z') || (c >= 'A' && c <= 'Z') || c == '+' || c == '/' || c == '=':
			b64 = append(b64, byte(c))
			p.pos++
			continue
		default:
			p.fail("invalid character %q in blob", rune(c))
		}
		break
	}
	// Padded base64: length multiple of 4, '=' only as the last one or two characters.
	body := strings.TrimRight(string(b64), "=")
	if len(b64)%4 != 0 || len(b64)-len(body) > 2 || strings.Contains(body, "=") {
		p.failAt(start, "blob is not correctly padded base64")
	}
	out, err := base64.StdEncoding.DecodeString(string(b64))
	if err != nil {
		p.failAt(start, "invalid base64 in blob: %v", err)
	}
	return refmodel.BlobV(out)
}

// ---- containers ----

func (p *parser) enter() {
	p.depth++
	if p.depth > maxDepth {
		p.fail("containers nested deeper than %d", maxDepth)
	}
	p.pos++
}

func (p *parser) list() *refmodel.Value {
	start := p.pos
	p.enter()
	v := &refmodel.Value{Type: refmodel.List}
	for {
		p.skipWS()
		if p.eat(']') { // empty list, or after a (trailing) comma
			break
		}
		if p.peek() < 0 {
			p.failAt(start, "unterminated list")
		}
		v.Kids = append(v.Kids, p.value(false))
		p.skipWS()
		if p.eat(']') {
			break
		}
		if p.peek() < 0 {
			p.failAt(start, "unterminated list")
		}
		p.expect(',', "or ']' in list")
	}
	p.depth--
	return v
}

func (p *parser) sexp() *refmodel.Value {
	start := p.pos
	p.enter()
	v := &refmodel.Value{Type: refmodel.Sexp}
	for {
		p.skipWS()
		if p.eat(')') {
			break
		}
		if p.peek() < 0 {
			p.failAt(start, "unterminated s-expression")
		}
		v.Kids = append(v.Kids, p.value(true))
	}
	p.depth--
	return v
}

func (p *parser) structure() *refmodel.Value {
	start := p.pos
	p.enter()
	v := &refmodel.Value{Type: refmodel.Struct}
	for {
		p.skipWS()
		if p.eat('}') {
			break
		}
		if p.peek() < 0 {
			p.failAt(start, "unterminated struct")
		}
		name := p.fieldName()
		p.skipWS()
		p.expect(':', "after field name")
		kid := p.value(false)
		kid.Field = &name
		v.Kids = append(v.Kids, kid)
		p.skipWS()
		if p.eat('}') {
			break
		}
		if p.peek() < 0 {
			p.failAt(start, "unterminated struct")
		}
		p.expect(',', "or '}' in struct")
	}
	p.depth--
	return v
}

func (p *parser) fieldName() refmodel.Sym {
	c := p.peek()
	switch {
	case c == '"':
		return refmodel.Sym{Text: string(p.quoted('"', false)), HasText: true, Quoted: true}
	case c == '\'' && p.has("'''"):
		return refmodel.Sym{Text: string(p.longs(false)), HasText: true, Quoted: true}
	case c == '\'':
		return refmodel.Sym{Text: string(p.quoted('\'', false)), HasText: true, Quoted: true}
	case isIdentStart(c):
		start := p.pos
		id := p.ident()
		switch id {
		case "null", "true", "false", "nan":
			p.failAt(start, "keyword %s cannot be an unquoted field name", id)
		}
		return p.symOf(id, start)
	}
	p.fail("expected a field name, found %q", rune(c))
	return refmodel.Sym{}
}
