package reftext

import (
	"bytes"
	"math"
	"math/big"
	"strings"
	"testing"

	m "verif/internal/refmodel"
)

// ---- a Chooser that forces chosen alternatives at chosen Dev points and records all points ----

type point struct {
	label string
	n     int
}

type forced struct {
	force map[int]int
	pts   []point
}

func (f *forced) Dev(label string, n int) int {
	i := len(f.pts)
	f.pts = append(f.pts, point{label, n})
	if k, ok := f.force[i]; ok && k < n {
		return k
	}
	return 0
}
func (f *forced) Pick(string, int) int { return 0 }

// roundTrip prints vals under the forced choices, parses the result back and compares.
func roundTrip(t *testing.T, vals []*m.Value, force map[int]int) []point {
	t.Helper()
	ch := &forced{force: force}
	out := Print(ch, vals)
	got, err := Parse(out)
	if err != nil {
		t.Errorf("force %v: %q does not parse: %v\n  pts=%v", force, out, err, ch.pts)
	} else if d := m.DiffStreams(vals, got); d != "" {
		t.Errorf("force %v: %q parses differently: %s (want %s)", force, out, d, m.StreamString(vals))
	}
	return ch.pts
}

func bigS(s string) *big.Int { n, _ := new(big.Int).SetString(s, 10); return n }

func ts(prec m.Prec, y, mo, d, h, mi, s int, frac string, known bool, off int) *m.Value {
	t := m.TS{Year: y, Month: mo, Day: d, Hour: h, Minute: mi, Second: s, Prec: prec, OffsetKnown: known, OffsetMin: off}
	if frac != "" {
		t.FracDigits = len(frac)
		t.FracCoef = bigS(frac)
	}
	return m.TSV(t)
}

var weirdTexts = []string{"", "null", "true", "false", "nan", "$5", "$0", "$", "$a", "+", "-", "a.b", "a b", "é", "😀", "\x00", "\x7f",
	"'", "''", "'''", `"`, `\`, "\n", "\r", "\r\n", "//", "/*", "*/", "::", ":", "+-", "<=", "+inf", "-inf", "inf", "_", "_1", "a1$_",
	"$ion_1_0", "$ion_symbol_table", "null.int", "1", "1a", "-1", "T", "{}", "\t\v\f", "ÿ", "￿", "\U0010ffff", " "}

// bigTable is a broad catalogue of streams (mostly one value each).
func bigTable() [][]*m.Value {
	var vs []*m.Value
	for ty := m.Null; ty <= m.Struct; ty++ {
		vs = append(vs, m.NullOf(ty))
	}
	vs = append(vs, m.BoolV(true), m.BoolV(false))
	for _, s := range []string{"0", "1", "-1", "7", "10", "-10", "255", "-255", "1000", "18446744073709551616", "-1208925819614629174706176", "123456789012345678901234567890"} {
		vs = append(vs, m.BigV(bigS(s)))
	}
	for _, f := range []float64{0, math.Copysign(0, -1), 1, -1.5, 0.1, 123456.789, 1e300, -1e-300, 5e-324, math.MaxFloat64, math.NaN(), math.Inf(1), math.Inf(-1), 1e21, 1e-7} {
		vs = append(vs, m.FloatV(f))
	}
	for _, d := range []struct {
		c  string
		e  int64
		nz bool
	}{{"0", 0, false}, {"0", 0, true}, {"0", 5, true}, {"0", -3, true}, {"0", -3, false}, {"123", -2, false}, {"-123", -2, false}, {"1", 10, false},
		{"5", -10, false}, {"-5", -3, false}, {"1", 0, false}, {"10", 0, false}, {"-7", 0, false}, {"100", -2, false}, {"12345678901234567890123", -30, false},
		{"1", math.MaxInt64, false}, {"1", math.MinInt64 + 100, false}, {"42", -64, false}, {"42", -65, false}} {
		vs = append(vs, m.DecV(bigS(d.c), d.e, d.nz))
	}
	vs = append(vs,
		ts(m.PYear, 2007, 0, 0, 0, 0, 0, "", false, 0), ts(m.PYear, 1, 0, 0, 0, 0, 0, "", false, 0),
		ts(m.PMonth, 2007, 12, 0, 0, 0, 0, "", false, 0), ts(m.PDay, 2000, 2, 29, 0, 0, 0, "", false, 0),
		ts(m.PDay, 9999, 12, 31, 0, 0, 0, "", false, 0), ts(m.PMinute, 2007, 1, 1, 12, 30, 0, "", true, 0),
		ts(m.PMinute, 2007, 1, 1, 0, 0, 0, "", true, 60), ts(m.PMinute, 2007, 1, 1, 23, 59, 0, "", false, 0),
		ts(m.PMinute, 2007, 1, 1, 0, 0, 0, "", true, -1439), ts(m.PMinute, 2007, 12, 31, 23, 59, 0, "", true, 1439),
		ts(m.PSecond, 2007, 1, 1, 12, 30, 5, "", true, 0), ts(m.PSecond, 2007, 1, 1, 12, 30, 59, "123", true, -480),
		ts(m.PSecond, 2007, 1, 1, 12, 30, 5, "0", false, 0), ts(m.PSecond, 2007, 1, 1, 12, 30, 5, "000", true, 0),
		ts(m.PSecond, 2007, 1, 1, 12, 30, 5, "001", true, 1), ts(m.PSecond, 9999, 12, 31, 23, 59, 59, "999999999999999999999", true, 0),
		ts(m.PSecond, 1, 1, 1, 0, 0, 0, "", true, 0))
	for _, s := range weirdTexts {
		vs = append(vs, m.SymV(s), m.StrV(s), m.StrV("a"+s+"b"), m.IntV(1).A(s), m.StructV(m.IntV(1).F(s)), m.SexpV(m.SymV(s)), m.SexpV(m.IntV(1), m.SymV(s), m.IntV(2)))
	}
	vs = append(vs, m.SymTok(m.NoText(0)), m.SymTok(m.NoText(10)), m.SymTok(m.Sym{Text: "abc", HasText: true, Quoted: true}),
		m.IntV(1).AS(m.NoText(0), m.T("a"), m.NoText(12)), m.StructV(m.IntV(1).FS(m.NoText(7)), m.IntV(2).FS(m.NoText(0))))
	for _, s := range []string{"hello", "a'''b", "a\r\nb", "\x01\x1f\x7f", "a😀b", "é😀", "\\\n", "/*x*/", "ab", "abc", "'a", "a'", `a"`, "\\'", "\n\n", "😀"} {
		vs = append(vs, m.StrV(s))
	}
	for n := 0; n <= 4; n++ {
		b := []byte{0xff, 0x00, 'a', '"', 0x80}[:n]
		vs = append(vs, m.BlobV(b), m.ClobV(b), m.ClobV([]byte("abcd")[:n]))
	}
	vs = append(vs, m.ClobV([]byte("'''\\\"\n\r\t\x7f'")), m.BlobV([]byte("hello world")), m.BlobV([]byte{0xfb, 0xff, 0xfe}))
	vs = append(vs,
		m.ListV(), m.SexpV(), m.StructV(), m.ListV(m.IntV(1)), m.ListV(m.IntV(1), m.StrV("a"), m.SymV("b")),
		m.SexpV(m.SymV("a"), m.SymV("+"), m.SymV("b")), m.SexpV(m.SymV("-"), m.IntV(1)), m.SexpV(m.IntV(-1)), m.SexpV(m.SymV("+"), m.SymV("inf")),
		m.SexpV(m.SymV("-"), m.SymV("-"), m.IntV(1)), m.SexpV(m.StrV("a"), m.StrV("b")), m.SexpV(m.StrV("a"), m.StrV("b"), m.StrV("c")),
		m.SexpV(m.SymV(""), m.SymV("x")), m.SexpV(m.SymV("."), m.IntV(5)), m.SexpV(m.FloatV(math.Inf(1)), m.FloatV(math.Inf(-1)), m.FloatV(math.NaN())),
		m.SexpV(m.SymV("+").A("a")), m.SexpV(m.IntV(1), m.IntV(2)), m.SexpV(m.SymV("a"), m.SymV("b")),
		m.StructV(m.IntV(1).F("a"), m.IntV(2).F("a"), m.NullOf(m.Null).F("b")), m.StructV(m.StructV(m.ListV(m.SexpV()).F("x")).F("y")),
		m.ListV(m.ListV(m.ListV()), m.SexpV(m.SexpV()), m.StructV()), m.IntV(1).A("a", "b"), m.ListV(m.SymV("x").A("y")).A("z"),
		m.StructV(m.StrV("s").F("f").A("q")).A("$ion_symbol_table"), m.StructV(m.StrV("v").F("k1"), m.StrV("w").F("k2")),
		m.SexpV(m.DecV(big.NewInt(1), 0, false), m.FloatV(1), m.IntV(1), ts(m.PDay, 2001, 1, 1, 0, 0, 0, "", false, 0), ts(m.PYear, 2001, 0, 0, 0, 0, 0, "", false, 0)),
	)
	var table [][]*m.Value
	var mixed []*m.Value // every 5th value as one long stream
	for i, v := range vs {
		table = append(table, []*m.Value{v})
		if i%5 == 0 {
			mixed = append(mixed, v)
		}
	}
	return append(table, nil,
		[]*m.Value{m.IntV(1), m.IntV(2)}, []*m.Value{m.StrV("a"), m.StrV("b")}, []*m.Value{m.SymV("a"), m.SymV("b"), m.SymV("")},
		[]*m.Value{m.SymV("$ion_1_0"), m.IntV(1), m.SymV("$ion_1_0")}, []*m.Value{m.ListV(), m.ListV()},
		[]*m.Value{m.FloatV(1), m.DecV(big.NewInt(1), 0, false), m.NullOf(m.Null), m.BoolV(true), ts(m.PYear, 2001, 0, 0, 0, 0, 0, "", false, 0), m.IntV(-1)},
		mixed)
}

func smallTable() [][]*m.Value {
	one := func(v *m.Value) []*m.Value { return []*m.Value{v} }
	return [][]*m.Value{
		one(m.NullOf(m.Null).A("a")), one(m.IntV(-31)), one(m.FloatV(1.5)), one(m.DecV(big.NewInt(-15), -1, false)), one(m.DecV(big.NewInt(0), 0, true)),
		one(ts(m.PDay, 2001, 2, 3, 0, 0, 0, "", false, 0)), one(ts(m.PSecond, 2001, 2, 3, 4, 5, 6, "70", true, 0)),
		one(m.SymV("a")), one(m.SymV("+")), one(m.StrV("a")), one(m.StrV("é'")), one(m.StrV("😀\n")), one(m.StrV("'\r")), one(m.StrV("")),
		one(m.ClobV([]byte("a'\xff"))), one(m.BlobV([]byte("ab"))), one(m.ListV(m.IntV(1), m.StrV("s"))),
		one(m.SexpV(m.SymV("a"), m.SymV("+"), m.IntV(1))), one(m.SexpV(m.StrV("a"), m.StrV("b"))), one(m.SexpV(m.SymV("-"), m.IntV(1), m.SymV("//"))),
		one(m.StructV(m.StrV("x").F("f"), m.SymV("g").FS(m.NoText(4)))), one(m.StructV(m.IntV(1).F("a b").A("c"))),
		{m.StrV("a"), m.StrV("b")}, {m.IntV(1), m.SymV("x"), m.IntV(2)}, {m.SymV("$ion_1_0").A("a"), m.StructV()},
	}
}

func TestCanonicalSpelling(t *testing.T) {
	vals := []*m.Value{m.IntV(1), m.StrV("a\n"), m.SymV("a b"), m.SexpV(m.SymV("+"), m.IntV(-2)), m.ListV(m.IntV(1), m.NullOf(m.Int)),
		m.StructV(m.FloatV(-0.5).F("f"), m.DecV(big.NewInt(0), 0, true).F("null")), m.BlobV([]byte("hello")), m.ClobV([]byte("a\xff")), m.IntV(3).A("x", "$3"),
		m.FloatV(math.Copysign(0, -1)), m.DecV(big.NewInt(123), -2, false), ts(m.PMinute, 2007, 1, 2, 3, 4, 0, "", true, 0)}
	want := `1 "a\n" 'a b' ('+' -2) [1,null.int] {f:-5e-1,'null':-0d0} {{aGVsbG8=}} {{"a\xff"}} x::'$3'::3 -0e0 123d-2 2007-01-02T03:04Z`
	if got := string(Print(m.Canon{}, vals)); got != want {
		t.Errorf("canonical form\n got %s\nwant %s", got, want)
	}
}

func TestRoundTripSingleDeviations(t *testing.T) {
	runs := 0
	for _, vals := range bigTable() {
		pts := roundTrip(t, vals, nil)
		if again := roundTrip(t, vals, nil); len(again) != len(pts) {
			t.Fatalf("non-deterministic point sequence for %s", m.StreamString(vals))
		}
		runs++
		for j, pt := range pts {
			for k := 1; k < pt.n; k++ {
				roundTrip(t, vals, map[int]int{j: k})
				runs++
			}
		}
		if t.Failed() {
			t.Fatalf("stopping at first failing stream %s", m.StreamString(vals))
		}
	}
	t.Logf("%d streams, %d print/parse round trips", len(bigTable()), runs)
}

func TestRoundTripPairsOfDeviations(t *testing.T) {
	runs := 0
	for _, vals := range smallTable() {
		pts := roundTrip(t, vals, nil)
		for j, pt := range pts {
			for k := 1; k < pt.n; k++ {
				pts2 := roundTrip(t, vals, map[int]int{j: k}) // later points may depend on this answer
				for j2 := j + 1; j2 < len(pts2); j2++ {
					for k2 := 1; k2 < pts2[j2].n; k2++ {
						roundTrip(t, vals, map[int]int{j: k, j2: k2})
						runs++
					}
				}
			}
		}
		if t.Failed() {
			t.Fatalf("stopping at first failing stream %s", m.StreamString(vals))
		}
	}
	t.Logf("%d streams, %d two-deviation round trips", len(smallTable()), runs)
}

// Every label is exercised somewhere in the big table (guards against dead choice points).
func TestAllDevLabelsReachable(t *testing.T) {
	seen := map[string]bool{}
	for _, vals := range bigTable() {
		ch := &forced{}
		Print(ch, vals)
		for _, p := range ch.pts {
			seen[p.label] = true
		}
		ch = &forced{force: map[int]int{}}
		for i := 0; i < 4000; i++ { // force alternative 1 everywhere to reach dependent points
			ch.force[i] = 1
		}
		Print(ch, vals)
		for _, p := range ch.pts {
			seen[p.label] = true
		}
	}
	for _, l := range strings.Fields("ws null.form int.radix int.us dec.form dec.D dec.plus float.E float.plus ts.zform ts.dayT str.form esc cont sym.quote sym.op field.form blob.ws blob.nl clob.form trailing") {
		if !seen[l] {
			t.Errorf("Dev label %q never asked", l)
		}
	}
}

// ---- rejection table ----

var rejects = []string{
	// unterminated
	`"abc`, `'abc`, `'''abc`, `'''abc''`, `/* abc`, `/* abc *`, `[1, 2`, `[1,`, `[`, `(1 2`, `(`, `{a:1`, `{a:`, `{a`, `{`, `{{`, `{{ aGVsbG8=`, `{{ "abc"`, `{{ "abc" }`,
	`{{ aGVsbG8= }`, `{{ '''abc'''`, `{{ '''abc`, `"\`, `'''\`, `"abc\"`, `[[1]`, `a::[`,
	// escapes
	`"\q"`, `"\x1"`, `"\xZZ"`, `"\x"`, `"\u12"`, `"\u12G4"`, `"\U0011000"`, `"\U00110000"`, `"\U0000D800"`, `"\U0000DFFF"`, `"\uD800"`, `"\uDC00"`, `"\uDC00\uD800"`,
	`"\uD800A"`, `"\uD83D x"`, `"\uD83D\U0000DE00"`, `'''\uD83D''' '''\uDE00'''`, `'\q'`, `'\uD800'`, `'''\z'''`, `"\1"`, `"\N"`, `"\X41"`,
	`{{ "\u0041" }}`, `{{ "\U00000041" }}`, `{{ '''\u0041''' }}`, `{{ "\q" }}`,
	// raw newlines / control characters / encoding
	"\"a\nb\"", "\"a\rb\"", "'a\nb'", "'a\rb'", "\"a\x01b\"", "\"a\x00b\"", "'a\x1fb'", "'''a\x00b'''", "'''a\x08b'''",
	"\"\xff\xfe\"", "'\xff'", "'''\xc3'''", "\"\xed\xa0\x80\"", "\"\xc0\x80\"", "\"\xf4\x90\x80\x80\"", "\"\xc3\"", "\xff", "\xc3\xa9", "[\x80]", "\x00", "\x7f", "\x1b",
	"{{ \"\xc3\xa9\" }}", "{{ \"a\x80\" }}", "{{ '''a\xff''' }}", "{{ \"a\nb\" }}", "{{ \"a\x01\" }}",
	// lob structure
	`{{ "a" /*c*/ }}`, `{{ /*c*/ "a" }}`, "{{ '''a''' // c\n }}", `{{ '''a''' /*c*/ '''b''' }}`, `{{ "a" "b" }}`, `{{ "a" '''b''' }}`, `{{ '''a''' "b" }}`, `{{ "a" } }`, `{ { "a" }}`,
	`{{ aGVsbG8 }}`, `{{ aGVsbG8== }}`, `{{ a=Vs }}`, `{{ aGV=bG8= }}`, `{{ aG= }}`, `{{ a }}`, `{{ ==== }}`, `{{ = }}`, `{{ aGVs$G8= }}`, `{{ aGVsbA=== }}`, `{{ aGVsbG8= } }`,
	`{{ aGVsbG8=/*c*/ }}`, `{{ aGVsbG8= //c` + "\n}}", `{ { aGVsbG8= }}`, `{{ aGVs-G8= }}`, `{{ aGVs_G8= }}`, `{{ aGVsbG8=aGVs }}`, `{{ a===}}`, `{{ "a" aGVs }}`,
	// numbers
	`1__0`, `1_`, `0x_1`, `0x1_`, `0x1__1`, `0b_1`, `0b1_`, `1_.0`, `1._0`, `1.0_`, `1.0__1`, `007`, `00`, `01`, `01.5`, `-007`, `-00`, `0_1`, `00.5`, `00d0`, `00e0`, `0x`, `0X`, `0b`, `0b2`, `0xG`, `0b1.0`,
	`+1`, `+0x1`, `1e`, `1d`, `1e+`, `1d-`, `1E-`, `1.5.5`, `1x`, `1a`, `1_a`, `0x1.5`, `0x1G`, `1e5.5`, `1d5.5`, `1e5e5`, `1d5d5`, `- 1`, `-`, `--1`, `-+1`, `1d1_0`, `1e1_0`, `.5`, `1 .5`, `1d+-1`, `-_1`, `-a`,
	`1d99999999999999999999`, `1.5d-9223372036854775808`, `1+2`, `1-2`, `(1+2)`, `(1-2)`, `(1a)`, `(1.5x)`, `(1e5*)`, `(0x1g)`, `(1/2)`, `[1-1]`, `(1_)`, `(2007T+)`, `12345T`, `123T`,
	`+inf1`, `-infx`, `+infinity`, `[+in]`, `+ inf`, `nan.`,
	// null forms
	`null.foo`, `null.`, `null. int`, "null.\nint", `null .int`, `null.Int`, `null.INT`, `null.intx`, `null.int1`, `null.nan`, `null.true`, `null.null.null`, `null.int.x`, `(null.)`, `(null.foo)`, `null./**/int`,
	// container punctuation
	`[,1]`, `[,]`, `[1,,2]`, `[1,,]`, `[1 2]`, `[1;2]`, `[1:2]`, `{a:1,,b:2}`, `{a:1,,}`, `{,}`, `{,a:1}`, `(1,2)`, `(,)`, `(1,)`, `1,2`, `,`, `1,`, `,1`, `[1],[2]`,
	`]`, `)`, `}`, `}}`, `[1)`, `(1]`, `{a:1]`, `[1}`, `(1}`, `{a:1)`, `[(])`, `:`, `::a`, `a:b`, `a:::b`, `a:1`, `[a:1]`, `(a:1)`,
	// annotations
	`a::`, `[a::]`, `(a::)`, `{f:a::}`, `[a::,1]`, `[1,a::]`, `a:: ::b`, `a::b::`, `a:: `, `a::/*c*/`, `a::b:: //c`, `{a::b}`, `{a::b:1}`, `(a::,)`,
	`null::1`, `true::1`, `false::a`, `nan::1`, `null.int::1`, `null ::1`, `a::null::1`, `a::true::1`, `1::a`, `1.5::a`, `"s"::a`, `'''s'''::a`, `+::a`, `(+::a)`, `(a::+::b)`, `[]::a`, `2007T::a`, `{{}}::a`, `+inf::a`,
	// struct fields
	`{a:}`, `{a}`, `{:1}`, `{a 1}`, `{a:1 b:2}`, `{a:1 2}`, `{1:2}`, `{[1]:2}`, `{+:1}`, `{a.b:1}`, `{(a):1}`, `{{}:1}`, `{a:b:c}`, `{a:,}`, `{a:1,b}`, `{a:1,:2}`, `{"a"}`, `{"a" 1}`, `{'''a''' 1}`, `{x::a:1}`, `{'x'::a:1}`,
	`{null:1}`, `{true:1}`, `{false:1}`, `{nan:1}`, `{null.int:1}`, `{+inf:1}`, `{2007T:1}`, `{1.0:1}`, `{a:1}}`, `{$99999999999999999999:1}`,
	// operators outside s-expressions
	`+`, `a+b`, `[+]`, `{a:+}`, `[a+b]`, `!`, `a.b`, `[a.b]`, `{a:b.c}`, `<=`, `*/`, `/`, `a /`, `[/]`, "`", `#x`, `a;`, `[(a+b),+]`,
	// timestamps
	`2007-01`, `2007-01-01T12`, `2007-01-01T12:30`, `2007-01-01T12:30:05`, `2007-01-01T12:30:05.123`, `2007-13T`, `2007-00T`, `2007-01-00`, `2007-01-32`, `2007-02-29`, `2100-02-29`, `2007-02-30T`,
	`2007-04-31`, `2007-06-31T00:00Z`, `0000T`, `0000-01-01`, `0000-01T`, `2007-01-01T24:00Z`, `2007-01-01T12:60Z`, `2007-01-01T12:30:60Z`, `2007-01-01T12:30:61Z`, `2007-01-01T12:30+24:00`, `2007-01-01T12:30-24:00`,
	`2007-01-01T12:30+01:60`, `2007-01-01T12:30z`, `2007t`, `2007-01t`, `2007-01-01t`, `2007-01-01t12:30Z`, `2007-01-01T12:30:05.Z`, `2007-01-01T12:30.5Z`, `2007-01-01T1:30Z`, `2007-01-01T12:3Z`,
	`2007-01-01T12:30+1:00`, `2007-01-01T12:30+0100`, `2007-01-01T12:30+01`, `2007-01-01T12:30Z5`, `2007-01-01T12:30ZZ`, `2007-01-01T12:30Z+00:00`, `2007Tx`, `2007T1`, `2007-1-01`, `2007-01-1`, `207T`, `20007T`, `20007-01-01`,
	`-2007T`, `-2007-01-01`, `2007-01-01T12:30 Z`, `2007-01-01 T12:30Z`, `2007-01-01T 12:30Z`, `2007-01-01T12:30:05.1_2Z`, `2007-01-01T12:30:05,5Z`, `2007-01-01T12-30Z`, `2007/01/01`, `2007-01-01Z`, `2007-01TZ`, `2007TZ`,
	`2007-01-01T12:30+`, `2007-01-01T12:30-`, `2007-01-01T12:30+01:`, `2007-01-01T12:30:`, `2007-01-01T12:`, `2007-`, `2007-01-`, `2007-01-01T00:00:00.000`, `(2007-01)`, `[2007-01-01T12:30]`, `2007-01-01T12:30Z_`, `2_007T`, `2007-0_1T`,
	// misc
	`\`, `\n`, `@`, `a\b`, `$99999999999999999999`, `'a'b'`, `"a"b"`, `''''`, `'''a''''`, `[1] ]`, `/**/ /*`, `a /* b`, `//c` + "\n/*",
}

func TestRejects(t *testing.T) {
	if len(rejects) < 80 {
		t.Fatalf("rejection table too small: %d", len(rejects))
	}
	seen := map[string]bool{}
	for _, src := range rejects {
		if seen[src] {
			t.Errorf("duplicate reject entry %q", src)
		}
		seen[src] = true
		vals, err := Parse([]byte(src))
		if err == nil {
			t.Errorf("%q accepted as %s", src, m.StreamString(vals))
		} else if !strings.Contains(err.Error(), "offset") || strings.Contains(err.Error(), "internal") {
			t.Errorf("%q: error lacks an offset or is internal: %v", src, err)
		}
	}
	t.Logf("%d malformed inputs rejected", len(rejects))
}

// ---- acceptance table ----

func TestAccepts(t *testing.T) {
	s, y, i, l, x, st := m.StrV, m.SymV, m.IntV, m.ListV, m.SexpV, m.StructV
	dec := func(c, e int64) *m.Value { return m.DecV(big.NewInt(c), e, false) }
	negz := func(e int64) *m.Value { return m.DecV(big.NewInt(0), e, true) }
	sid := func(n int64) *m.Value { return m.SymTok(m.NoText(n)) }
	deep := l()
	for k := 0; k < 15; k++ {
		deep = l(deep)
	}
	cases := []struct {
		src  string
		want []*m.Value
	}{
		{``, nil}, {" \t\n\v\f\r ", nil}, {"//only", nil}, {"/**/", nil}, {"/*/*/", nil}, {"//a\r1", []*m.Value{i(1)}}, {"/***/1/**//**/2//", []*m.Value{i(1), i(2)}},
		{"/*a*/[/*b*/1/*c*/,/*d*/2/*e*/]/*f*/", []*m.Value{l(i(1), i(2))}}, {"{/*a*/a/*b*/:/*c*/1/*d*/,/*e*/}//x", []*m.Value{st(i(1).F("a"))}},
		{"a/*1*/::/*2*/b//3\n::\n1", []*m.Value{i(1).A("a", "b")}}, {"(a/*x*/b//y\n)", []*m.Value{x(y("a"), y("b"))}}, {"1//x\n2", []*m.Value{i(1), i(2)}}, {"1/*x*/2", []*m.Value{i(1), i(2)}},
		{`(a+b)`, []*m.Value{x(y("a"), y("+"), y("b"))}}, {`(- 1)`, []*m.Value{x(y("-"), i(1))}}, {`(-1)`, []*m.Value{x(i(-1))}}, {`(--1)`, []*m.Value{x(y("--"), i(1))}},
		{`(a-1)`, []*m.Value{x(y("a"), i(-1))}}, {`(+-1)`, []*m.Value{x(y("+-"), i(1))}}, {`(a.b)`, []*m.Value{x(y("a"), y("."), y("b"))}}, {`(.5)`, []*m.Value{x(y("."), i(5))}},
		{`(+inf -inf +infx -inf-)`, []*m.Value{x(m.FloatV(math.Inf(1)), m.FloatV(math.Inf(-1)), y("+"), y("infx"), y("-"), y("inf"), y("-"))}},
		{`(+//c` + "\n" + `-/**/*)`, []*m.Value{x(y("+"), y("-"), y("*"))}}, {`(a/b)`, []*m.Value{x(y("a"), y("/"), y("b"))}}, {"(!#%&*+-./;<=>?@^`|~)", []*m.Value{x(y("!#%&*+-./;<=>?@^`|~"))}},
		{`(a::+ 'b'::-)`, []*m.Value{x(y("+").A("a"), y("-").A("b"))}}, {`((())[](){})`, []*m.Value{x(x(x()), l(), x(), st())}}, {`(null.int true nan)`, []*m.Value{x(m.NullOf(m.Int), m.BoolV(true), m.FloatV(math.NaN()))}},
		{`[1,]`, []*m.Value{l(i(1))}}, {`[1 , 2 , ]`, []*m.Value{l(i(1), i(2))}}, {`{a:1,}`, []*m.Value{st(i(1).F("a"))}}, {`[]`, []*m.Value{l()}}, {`[ ]`, []*m.Value{l()}}, {`{}`, []*m.Value{st()}}, {`()`, []*m.Value{x()}},
		{`[1][2]`, []*m.Value{l(i(1)), l(i(2))}}, {`1[2]3"4"5'6'`, []*m.Value{i(1), l(i(2)), i(3), s("4"), i(5), y("6")}}, {`a"b"'c'd`, []*m.Value{y("a"), s("b"), y("c"), y("d")}}, {`{}{}`, []*m.Value{st(), st()}},
		{`'''a''' /*x*/ '''b'''`, []*m.Value{s("ab")}}, {"'''a'''\n//c\n'''b''''''c'''", []*m.Value{s("abc")}}, {`['''a''' '''b''', '''c''']`, []*m.Value{l(s("ab"), s("c"))}},
		{`'''a''' "b" '''c'''`, []*m.Value{s("a"), s("b"), s("c")}}, {"'''a\rb\r\nc\nd'''", []*m.Value{s("a\nb\nc\nd")}}, {"'''a\\\r\nb\\\nc\\\rd'''", []*m.Value{s("abcd")}}, {"\"a\\\nb\\\r\nc\"", []*m.Value{s("abc")}},
		{`'''a'b''c"d'''`, []*m.Value{s(`a'b''c"d`)}}, {`''''a'''`, []*m.Value{s("'a")}}, {`"\0\a\b\t\n\f\r\v\"\'\?\\\/"`, []*m.Value{s("\x00\a\b\t\n\f\r\v\"'?\\/")}}, {"\"a\tb\vc\fd\x7f\"", []*m.Value{s("a\tb\vc\fd\x7f")}},
		{`"\x41\xe9\xFF"`, []*m.Value{s("Aéÿ")}}, {`"é€\U0001F600\U0010ffff"`, []*m.Value{s("é€😀\U0010ffff")}}, {`"😀"`, []*m.Value{s("😀")}}, {`'😀' '''😀'''`, []*m.Value{y("😀"), s("😀")}},
		{`"é😀" 'é' '''😀'''`, []*m.Value{s("é😀"), y("é"), s("😀")}}, {`"//" "/*" '//'`, []*m.Value{s("//"), s("/*"), y("//")}}, {`''`, []*m.Value{y("")}}, {`'' ::1`, []*m.Value{i(1).A("")}},
		{`'null' 'true' '$5' 'a b' '\'' '1'`, []*m.Value{y("null"), y("true"), y("$5"), y("a b"), y("'"), y("1")}}, {`nullx truex nan1 _1 $ $a a$1 null_int`, []*m.Value{y("nullx"), y("truex"), y("nan1"), y("_1"), y("$"), y("$a"), y("a$1"), y("null_int")}},
		{`$ion_1_0`, []*m.Value{y("$ion_1_0")}}, {`$ion_symbol_table::{symbols:["a"]}`, []*m.Value{st(l(s("a")).F("symbols")).A("$ion_symbol_table")}}, {`$10 $0 $007 '$10'`, []*m.Value{sid(10), sid(0), sid(7), y("$10")}},
		{`$3::$4::{$5:$6,'$7':1}`, []*m.Value{st(sid(6).FS(m.NoText(5)), i(1).F("$7")).AS(m.NoText(3), m.NoText(4))}}, {`{"a":1,'''b''' '''c''':2,'d e':3,"":4,"null":5}`, []*m.Value{st(i(1).F("a"), i(2).F("bc"), i(3).F("d e"), i(4).F(""), i(5).F("null"))}},
		{`{a:b::c}`, []*m.Value{st(y("c").A("b").F("a"))}}, {`{a:{b:[{}]}}`, []*m.Value{st(st(l(st()).F("b")).F("a"))}}, {`{nullx:1,truey:2,$ion:3}`, []*m.Value{st(i(1).F("nullx"), i(2).F("truey"), i(3).F("$ion"))}},
		{`null null.null null.bool null.int null.float null.decimal null.timestamp null.symbol null.string null.clob null.blob null.list null.sexp null.struct`,
			[]*m.Value{m.NullOf(0), m.NullOf(0), m.NullOf(1), m.NullOf(2), m.NullOf(3), m.NullOf(4), m.NullOf(5), m.NullOf(6), m.NullOf(7), m.NullOf(8), m.NullOf(9), m.NullOf(10), m.NullOf(11), m.NullOf(12)}},
		{`a::null.int [null,null.list]`, []*m.Value{m.NullOf(m.Int).A("a"), l(m.NullOf(0), m.NullOf(m.List))}}, {`true false`, []*m.Value{m.BoolV(true), m.BoolV(false)}},
		{`0 -0 1_000 0x1_F -0b1 0XfF 0B10_1 -0x0 12345678901234567890`, []*m.Value{i(0), i(0), i(1000), i(31), i(-1), i(255), i(5), i(0), m.BigV(bigS("12345678901234567890"))}},
		{`1. 1.5 1d0 1.5D-3 -0. -0d5 -0.00 0.0 1.0_1 1_0.5 1d+2 0d-0 -1.50d1 1.d2`, []*m.Value{dec(1, 0), dec(15, -1), dec(1, 0), dec(15, -4), negz(0), negz(5), negz(-2), dec(0, -1), dec(101, -2), dec(105, -1), dec(1, 2), dec(0, 0), dec(-150, -1), dec(1, 2)}},
		{`1e0 1.5E+3 -0e0 1e-400 1e400 -1e400 0.1e1 1.e1 2.2250738585072011e-308 1_0e0`, []*m.Value{m.FloatV(1), m.FloatV(1500), m.FloatV(math.Copysign(0, -1)), m.FloatV(0), m.FloatV(math.Inf(1)), m.FloatV(math.Inf(-1)), m.FloatV(1), m.FloatV(10), m.FloatV(2.2250738585072011e-308), m.FloatV(10)}},
		{`nan +inf -inf [nan,+inf,-inf]`, []*m.Value{m.FloatV(math.NaN()), m.FloatV(math.Inf(1)), m.FloatV(math.Inf(-1)), l(m.FloatV(math.NaN()), m.FloatV(math.Inf(1)), m.FloatV(math.Inf(-1)))}},
		{`2007T 2007-01T 2007-01-01 2007-01-01T 0001T 9999-12-31`, []*m.Value{ts(1, 2007, 0, 0, 0, 0, 0, "", false, 0), ts(2, 2007, 1, 0, 0, 0, 0, "", false, 0), ts(3, 2007, 1, 1, 0, 0, 0, "", false, 0), ts(3, 2007, 1, 1, 0, 0, 0, "", false, 0), ts(1, 1, 0, 0, 0, 0, 0, "", false, 0), ts(3, 9999, 12, 31, 0, 0, 0, "", false, 0)}},
		{`2007-01-01T12:30Z 2007-01-01T12:30:05+01:00 2007-01-01T12:30:05.123-00:00 2007-01-01T12:30+00:00 2007-01-01T12:30-00:01 2007-01-01T00:00-23:59`, []*m.Value{ts(4, 2007, 1, 1, 12, 30, 0, "", true, 0), ts(5, 2007, 1, 1, 12, 30, 5, "", true, 60),
			ts(5, 2007, 1, 1, 12, 30, 5, "123", false, 0), ts(4, 2007, 1, 1, 12, 30, 0, "", true, 0), ts(4, 2007, 1, 1, 12, 30, 0, "", true, -1), ts(4, 2007, 1, 1, 0, 0, 0, "", true, -1439)}},
		{`2000-01-01T00:00:00.000Z 2000-02-29T23:59:59.0Z 2400-02-29 2007-01-01T00:00:00.00000000000000000001Z`, []*m.Value{ts(5, 2000, 1, 1, 0, 0, 0, "000", true, 0), ts(5, 2000, 2, 29, 23, 59, 59, "0", true, 0), ts(3, 2400, 2, 29, 0, 0, 0, "", false, 0), ts(5, 2007, 1, 1, 0, 0, 0, "00000000000000000001", true, 0)}},
		{`[2007T,2007-01-01]`, []*m.Value{l(ts(1, 2007, 0, 0, 0, 0, 0, "", false, 0), ts(3, 2007, 1, 1, 0, 0, 0, "", false, 0))}}, {"1\v2\f3", []*m.Value{i(1), i(2), i(3)}}, {"[1\v,\f2]\v", []*m.Value{l(i(1), i(2))}}, {"(a\vb\f)", []*m.Value{x(y("a"), y("b"))}},
		{`{{ aGVsbG8= }}`, []*m.Value{m.BlobV([]byte("hello"))}}, {`{{ aGVs bG8= }}`, []*m.Value{m.BlobV([]byte("hello"))}}, {"{{a\nG\tV\vs\fb\rG 8 = }}", []*m.Value{m.BlobV([]byte("hello"))}}, {`{{}}`, []*m.Value{m.BlobV(nil)}}, {`{{ }}`, []*m.Value{m.BlobV(nil)}},
		{`{{YQ==}} {{YWI=}} {{+/+/}} {{ Y Q = = }}`, []*m.Value{m.BlobV([]byte("a")), m.BlobV([]byte("ab")), m.BlobV([]byte{0xfb, 0xff, 0xbf}), m.BlobV([]byte("a"))}},
		{`{{"hello"}} {{ "a\x00\xff\n\"" }} {{""}}`, []*m.Value{m.ClobV([]byte("hello")), m.ClobV([]byte("a\x00\xff\n\"")), m.ClobV(nil)}}, {"{{ '''a''' \n\v '''b''' }} {{''''''}} {{'''a\nb\r\n'''}}", []*m.Value{m.ClobV([]byte("ab")), m.ClobV(nil), m.ClobV([]byte("a\nb\n"))}},
		{"{{ \"a\tb//c/*d*/\" }} {{'''\\\n'''}}", []*m.Value{m.ClobV([]byte("a\tb//c/*d*/")), m.ClobV(nil)}}, {`a::{{"x"}} b::{{eA==}}`, []*m.Value{m.ClobV([]byte("x")).A("a"), m.BlobV([]byte("x")).A("b")}},
		{`[[[[[[[[[[[[[[[[]]]]]]]]]]]]]]]]`, []*m.Value{deep}},
	}
	for _, c := range cases {
		got, err := Parse([]byte(c.src))
		if err != nil {
			t.Errorf("%q rejected: %v", c.src, err)
		} else if d := m.DiffStreams(c.want, got); d != "" {
			t.Errorf("%q: %s (got %s)", c.src, d, m.StreamString(got))
		}
	}
	// Quoted / field flags recorded by the parser.
	got, _ := Parse([]byte(`a 'a' $1 {"f":1,g:2}`))
	if got[0].Sym.Quoted || !got[1].Sym.Quoted || got[2].Sym.HasText || got[2].Sym.SID != 1 || !got[3].Kids[0].Field.Quoted || got[3].Kids[1].Field.Quoted {
		t.Errorf("Quoted/SID flags wrong: %+v", got)
	}
	t.Logf("%d valid inputs accepted", len(cases))
}

// ---- robustness ----

func noPanic(t *testing.T, src []byte) {
	if _, err := Parse(src); err != nil && strings.Contains(err.Error(), "internal error") {
		t.Fatalf("Parse(%q) panicked: %v", src, err)
	}
}

func TestNoPanicExhaustiveShortInputs(t *testing.T) {
	alphabet := []byte("a0_-+.edT:'\"\\/*{}[](), \n$x=")
	n := 0
	var rec func(buf []byte, depth int)
	rec = func(buf []byte, depth int) {
		noPanic(t, buf)
		n++
		if depth == 3 {
			return
		}
		for _, c := range alphabet {
			rec(append(buf[:len(buf):len(buf)], c), depth+1)
		}
	}
	rec(nil, 0)
	t.Logf("%d inputs of length <= 3 over %d characters", n, len(alphabet))
}

// Truncations, single-byte substitutions and deletions of valid and invalid documents never panic,
// and deep nesting produces an error instead of exhausting the stack.
func TestNoPanicMutations(t *testing.T) {
	docs := append([]string{}, rejects...)
	for _, vals := range bigTable()[:400] {
		docs = append(docs, string(Print(m.Canon{}, vals)))
	}
	subs := []byte("\x00\xff'\"\\/{}:,0_T-. \n")
	n := 0
	for _, d := range docs {
		if len(d) > 80 {
			continue
		}
		b := []byte(d)
		for i := 0; i <= len(b); i++ {
			noPanic(t, b[:i])
			n++
			if i == len(b) {
				break
			}
			noPanic(t, append(append([]byte{}, b[:i]...), b[i+1:]...))
			for _, c := range subs {
				mut := append([]byte{}, b...)
				mut[i] = c
				noPanic(t, mut)
				n += 2
			}
		}
	}
	if _, err := Parse(bytes.Repeat([]byte("["), 1_000_000)); err == nil {
		t.Error("a million unclosed lists accepted")
	}
	if _, err := Parse([]byte(strings.Repeat("(", 5000) + strings.Repeat(")", 5000))); err != nil {
		t.Errorf("5000-deep sexp rejected: %v", err)
	}
	t.Logf("%d mutated inputs", n)
}
