// Package refwriter is the Writer protocol automaton (DESIGN Appendix A.2):
// it is fed only the calls that returned nil and builds the value stream those
// calls denote. It never predicts which calls fail.
package refwriter

import (
	rm "verif/internal/refmodel"
)

// Automaton accumulates the values of successful Writer calls.
type Automaton struct {
	stack      []*rm.Value
	field      *rm.Sym
	annots     []rm.Sym
	Values     []*rm.Value // finished top-level values of all batches, in order
	Batches    int
	Impossible string // first successful call that cannot be applied
}

func (a *Automaton) impossible(why string) {
	if a.Impossible == "" {
		a.Impossible = why
	}
}

func (a *Automaton) inStruct() bool {
	return len(a.stack) > 0 && a.stack[len(a.stack)-1].Type == rm.Struct
}

// FieldName records a successful FieldName call.
func (a *Automaton) FieldName(s rm.Sym) {
	if !a.inStruct() {
		a.impossible("FieldName succeeded outside a struct")
		return
	}
	a.field = &s
}

// Annotation records a successful Annotation call.
func (a *Automaton) Annotation(s rm.Sym) { a.annots = append(a.annots, s) }

func (a *Automaton) place(v *rm.Value, what string) bool {
	v.Annots = a.annots
	a.annots = nil
	if a.inStruct() {
		if a.field == nil {
			a.impossible(what + " succeeded inside a struct without a field name")
			return false
		}
		v.Field = a.field
	}
	a.field = nil
	return true
}

func (a *Automaton) attach(v *rm.Value) {
	if len(a.stack) == 0 {
		a.Values = append(a.Values, v)
	} else {
		p := a.stack[len(a.stack)-1]
		p.Kids = append(p.Kids, v)
	}
}

// Value records a successful scalar write.
func (a *Automaton) Value(v *rm.Value, what string) {
	if a.place(v, what) {
		a.attach(v)
	}
}

// Begin records a successful BeginList/BeginSexp/BeginStruct.
func (a *Automaton) Begin(t rm.Type) {
	v := &rm.Value{Type: t}
	if a.place(v, "Begin") {
		a.stack = append(a.stack, v)
	} else {
		// keep the shape consistent so later calls still apply
		a.stack = append(a.stack, v)
	}
}

// End records a successful EndList/EndSexp/EndStruct.
func (a *Automaton) End(t rm.Type) {
	if len(a.stack) == 0 || a.stack[len(a.stack)-1].Type != t {
		a.impossible("End" + t.String() + " succeeded without a matching open container")
		return
	}
	v := a.stack[len(a.stack)-1]
	a.stack = a.stack[:len(a.stack)-1]
	a.field, a.annots = nil, nil
	a.attach(v)
}

// Finish records a successful Finish.
func (a *Automaton) Finish() {
	if len(a.stack) != 0 {
		a.impossible("Finish succeeded inside an open container")
		return
	}
	a.field, a.annots = nil, nil
	a.Batches++
}

// Depth is the number of open containers.
func (a *Automaton) Depth() int { return len(a.stack) }
