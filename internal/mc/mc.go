// Package mc is the stateless choice-tree explorer shared by every check.
//
// A check is a body func(*Ctx). Every decision the body makes goes through
// Pick / Dev / Shard. The explorer runs the body with the all-default choice
// vector, records the choice points it passed, and then re-executes it
// depth-first for every alternative of every point (replaying the prefix and
// taking the default afterwards). A run ends when the tree is exhausted, so
// a completed run is an exhaustive enumeration within the stated bound.
package mc

import (
	"fmt"
	"hash/fnv"
	"sort"
	"strings"
	"time"
)

type pointKind uint8

const (
	kPick pointKind = iota
	kDev
	kShard
)

type point struct {
	n     int
	kind  pointKind
	label string
}

// Failure is what a body reports through Ctx.Fail.
type Failure struct {
	Class  string `json:"class"`  // closed set: panic, value-mismatch, missing-error, ...
	Key    string `json:"key"`    // check-defined refinement preserved by shrinking
	Detail string `json:"detail"` // free text: expected vs observed
	// Sig, when set, names the family of the failure more finely than Key. Shrinking never moves
	// between signatures, so a new defect cannot slide into the witness of a known one that shares
	// its class and key; known findings are still matched on class, key and witness only.
	Sig string `json:"sig,omitempty"`
}

type abortRun struct{}

// Divergence is raised when a replayed prefix does not meet the same points.
type Divergence struct{ Msg string }

func (d Divergence) Error() string { return "mc: divergence: " + d.Msg }

// Ctx is handed to the body for one execution.
type Ctx struct {
	prefix  []int
	lenient bool // shrinking: out-of-range / missing choices become 0, shard filter off
	prevPts []point
	// keyed (lenient replay only): the choice for the k-th point labelled L is
	// keyed[L][k] (0 when absent or out of range). Replaying by (label,
	// occurrence) instead of by position keeps a deviation attached to "its"
	// decision when an earlier choice changes the shape of the case.
	keyed map[string][]int
	occ   map[string]int

	bound    int
	shardIdx int
	shardN   int

	points  []point
	choices []int
	devUsed int

	caseFn     func() string
	obs        []string
	classKey   string
	nontrivial bool
	trans      int64
	skip       string
	fail       *Failure
	family     string // signature given to any failure of this execution (see Failure.Sig)
	costly     bool   // one execution costs seconds (a subprocess): replay twice instead of five times, do not shrink
	Tier       string
}

// Pick enumerates all n alternatives.
func (c *Ctx) Pick(label string, n int) int { return c.choose(label, n, kPick) }

// Dev: alternative 0 is the default; 1..n-1 each cost one deviation.
func (c *Ctx) Dev(label string, n int) int { return c.choose(label, n, kDev) }

// Shard is a Pick whose alternatives are dealt to worker processes.
func (c *Ctx) Shard(label string, n int) int { return c.choose(label, n, kShard) }

// Bool is Pick(label, 2) == 1.
func (c *Ctx) Bool(label string) bool { return c.Pick(label, 2) == 1 }

func (c *Ctx) choose(label string, n int, k pointKind) int {
	if n <= 0 {
		panic(fmt.Sprintf("mc: point %q with n=%d", label, n))
	}
	i := len(c.points)
	var ch int
	if c.keyed != nil {
		k := c.occ[label]
		c.occ[label] = k + 1
		if vs := c.keyed[label]; k < len(vs) && vs[k] >= 0 && vs[k] < n {
			ch = vs[k]
		}
	} else if i < len(c.prefix) {
		ch = c.prefix[i]
		if c.lenient {
			if ch >= n || ch < 0 {
				ch = 0
			}
		} else {
			if ch >= n || ch < 0 {
				panic(Divergence{fmt.Sprintf("point %d %q: replayed choice %d out of range %d", i, label, ch, n)})
			}
			if i < len(c.prevPts) && (c.prevPts[i].label != label || c.prevPts[i].n != n) {
				panic(Divergence{fmt.Sprintf("point %d: was %q/%d now %q/%d", i, c.prevPts[i].label, c.prevPts[i].n, label, n)})
			}
		}
	} else {
		switch {
		case k == kShard && !c.lenient && c.shardN > 1:
			ch = c.shardIdx
			if ch >= n {
				panic(abortRun{})
			}
		default:
			ch = 0
		}
	}
	if k == kDev && ch != 0 {
		c.devUsed++
	}
	c.points = append(c.points, point{n, k, label})
	c.choices = append(c.choices, ch)
	return ch
}

// DevsLeft reports how many deviations the current bound still allows.
func (c *Ctx) DevsLeft() int {
	if c.lenient {
		return 1 << 30
	}
	return c.bound - c.devUsed
}

// Case registers the (lazy) canonical rendering of the case under test.
func (c *Ctx) Case(f func() string) { c.caseFn = f }

// CaseStr registers an eager rendering.
func (c *Ctx) CaseStr(s string) { c.caseFn = func() string { return s } }

// Observe adds to the observation digest of this execution.
func (c *Ctx) Observe(parts ...interface{}) {
	c.obs = append(c.obs, fmt.Sprint(parts...))
}

// Class sets the "case class" part of the state digest.
func (c *Ctx) Class(s string) { c.classKey = s }

// Nontrivial marks the execution as passing the check's non-triviality rule.
func (c *Ctx) Nontrivial() { c.nontrivial = true }

// Step counts n transitions (API calls issued on the implementation).
func (c *Ctx) Step(n int) { c.trans += int64(n) }

// Skip marks the case as outside the property's domain (counted by reason).
func (c *Ctx) Skip(reason string) {
	if c.skip == "" {
		c.skip = reason
	}
}

// Fail records a violation (first one wins).
func (c *Ctx) Fail(class, key, format string, args ...interface{}) {
	if c.fail == nil {
		c.fail = &Failure{Class: class, Key: key, Detail: fmt.Sprintf(format, args...), Sig: c.family}
	}
}

// Failed reports whether a violation was recorded.
func (c *Ctx) Failed() bool { return c.fail != nil }

func (c *Ctx) digest() uint64 {
	h := fnv.New64a()
	h.Write([]byte(c.classKey))
	h.Write([]byte{0})
	for _, o := range c.obs {
		h.Write([]byte(o))
		h.Write([]byte{1})
	}
	if c.skip != "" {
		h.Write([]byte("skip:" + c.skip))
	}
	if c.fail != nil {
		h.Write([]byte("fail:" + c.fail.Class + ":" + c.fail.Key))
	}
	return h.Sum64()
}

func (c *Ctx) caseString() string {
	if c.caseFn == nil {
		return ""
	}
	return c.caseFn()
}

// Violation is a confirmed, shrunk failure.
type Violation struct {
	Property string   `json:"property"`
	Failure  Failure  `json:"failure"`
	Choices  []int    `json:"choices"`
	Labels   []string `json:"labels"`
	Case     string   `json:"case"`
	// Witness is the rendered case of the shrunk choice vector.
	Witness        string   `json:"witness"`
	WitnessChoices []int    `json:"witness_choices"`
	WitnessLabels  []string `json:"witness_labels"`
	WitnessFailure Failure  `json:"witness_failure"`
	Count          int64    `json:"count"` // executions that shrank to this witness
}

// Config bounds one exploration.
type Config struct {
	Bound    int
	ShardIdx int
	ShardN   int
	MaxExec  int64
	Deadline time.Time
	Tier     string
	// MaxShrink caps how many failing executions are shrunk individually; past it
	// failing executions are still counted and reported unshrunk (never dropped).
	MaxShrink int
	Samples   int
}

// Result of one exploration (one worker).
const maxDigests = 6000000

type Result struct {
	DigestsCapped bool
	Execs         int64
	Transitions   int64
	Points        int64
	States        map[uint64]struct{}
	Nontrivial    map[uint64]struct{}
	Skipped       map[string]int64
	Failing       int64
	Violations    []*Violation
	Samples       []string
	Exhaustive    bool
	CapHit        string
	Internal      string // non-empty: internal error (divergence, nondeterminism)
	MaxDevs       int
	ShrinkExecs   int64
}

type runOut struct {
	ctx     *Ctx
	aborted bool
}

func runOnce(body func(*Ctx), c *Ctx) (out runOut) {
	out.ctx = c
	defer func() {
		if r := recover(); r != nil {
			if _, ok := r.(abortRun); ok {
				out.aborted = true
				return
			}
			panic(r)
		}
	}()
	body(c)
	return
}

// Explore enumerates the body's choice tree.
func Explore(cfg Config, body func(*Ctx)) (res *Result) {
	res = &Result{
		States:     map[uint64]struct{}{},
		Nontrivial: map[uint64]struct{}{},
		Skipped:    map[string]int64{},
		Exhaustive: true,
	}
	if cfg.ShardN <= 0 {
		cfg.ShardN = 1
	}
	if cfg.Samples == 0 {
		cfg.Samples = 6
	}
	if cfg.MaxShrink == 0 {
		cfg.MaxShrink = 300000
	}
	defer func() {
		if r := recover(); r != nil {
			if d, ok := r.(Divergence); ok {
				res.Internal = d.Error()
				res.Exhaustive = false
				return
			}
			panic(r)
		}
	}()
	byWitness := map[string]*Violation{}
	shr := &shrinker{body: body, memo: map[string]*Failure{}, tier: cfg.Tier}
	var prefix []int
	var prevPts []point
	sampleEvery := int64(1)
	for {
		if cfg.MaxExec > 0 && res.Execs >= cfg.MaxExec {
			res.Exhaustive = false
			res.CapHit = fmt.Sprintf("max executions %d", cfg.MaxExec)
			break
		}
		if !cfg.Deadline.IsZero() && res.Execs%64 == 0 && time.Now().After(cfg.Deadline) {
			res.Exhaustive = false
			res.CapHit = "internal deadline"
			break
		}
		c := &Ctx{prefix: prefix, prevPts: prevPts, bound: cfg.Bound, shardIdx: cfg.ShardIdx, shardN: cfg.ShardN, Tier: cfg.Tier}
		out := runOnce(body, c)
		if !out.aborted {
			res.Execs++
			res.Transitions += c.trans
			res.Points += int64(len(c.points))
			if c.devUsed > res.MaxDevs {
				res.MaxDevs = c.devUsed
			}
			d := c.digest()
			// the digest sets only feed the "distinct" figures of the evidence; beyond maxDigests
			// entries per worker they stop growing (the figures are then lower bounds), so that a
			// deep tier cannot exhaust memory
			if len(res.States) < maxDigests {
				res.States[d] = struct{}{}
			} else {
				res.DigestsCapped = true
			}
			if c.skip != "" {
				res.Skipped[c.skip]++
			} else if c.nontrivial {
				if len(res.Nontrivial) < maxDigests {
					res.Nontrivial[d] = struct{}{}
				}
			}
			if c.fail == nil && c.skip == "" && len(res.Samples) < cfg.Samples && res.Execs%sampleEvery == 0 {
				if s := c.caseString(); s != "" {
					res.Samples = append(res.Samples, s)
					sampleEvery *= 7
				}
			}
			if c.fail != nil {
				res.Failing++
				v := confirmAndShrink(body, c, shr, int(res.Failing) <= cfg.MaxShrink, res)
				if res.Internal != "" {
					res.Exhaustive = false
					return
				}
				k := v.WitnessFailure.Class + "\x00" + v.WitnessFailure.Key + "\x00" + v.Witness
				if old, ok := byWitness[k]; ok {
					old.Count++
				} else {
					v.Count = 1
					byWitness[k] = v
					res.Violations = append(res.Violations, v)
				}
			}
		}
		// odometer: find the deepest point with an untried, affordable alternative
		pts, chs := c.points, c.choices
		next := -1
		var nextVal int
		devs := 0
		devBefore := make([]int, len(pts))
		for i := range pts {
			devBefore[i] = devs
			if pts[i].kind == kDev && chs[i] != 0 {
				devs++
			}
		}
		for i := len(pts) - 1; i >= 0; i-- {
			p := pts[i]
			nv := chs[i] + 1
			if p.kind == kShard && cfg.ShardN > 1 {
				nv = chs[i] + cfg.ShardN
			}
			if nv >= p.n {
				continue
			}
			if p.kind == kDev && chs[i] == 0 && devBefore[i] >= cfg.Bound {
				continue
			}
			next, nextVal = i, nv
			break
		}
		if next < 0 {
			break
		}
		prefix = append(append([]int{}, chs[:next]...), nextVal)
		prevPts = pts[:next+1]
	}
	return res
}

func sameFailure(a, b *Failure) bool {
	if a == nil || b == nil {
		return a == b
	}
	return a.Class == b.Class && a.Key == b.Key && a.Sig == b.Sig
}

// Family sets the signature any failure of this execution will carry (see Failure.Sig).
func (c *Ctx) Family(sig string) { c.family = sig }

// Sig refines the failure just recorded by Fail (see Failure.Sig).
func (c *Ctx) Sig(sig string) {
	if c.fail != nil {
		c.fail.Sig = sig
	}
}

// Costly marks this execution as expensive (see the costly field).
func (c *Ctx) Costly() { c.costly = true }

func confirmAndShrink(body func(*Ctx), c *Ctx, shr *shrinker, doShrink bool, res *Result) *Violation {
	// determinism: the same choice vector must fail identically 5 times (twice for costly executions)
	d0 := c.digest()
	replays := 5
	if c.costly {
		replays, doShrink = 2, false
	}
	for i := 0; i < replays; i++ {
		r := &Ctx{prefix: c.choices, lenient: true, Tier: c.Tier}
		out := runOnce(body, r)
		if out.aborted || !sameFailure(r.fail, c.fail) || r.digest() != d0 || !equalInts(r.choices, c.choices) {
			res.Internal = fmt.Sprintf("nondeterministic replay of %v: first %+v then %+v", c.choices, c.fail, r.fail)
			return nil
		}
	}
	v := &Violation{Failure: *c.fail, Choices: append([]int{}, c.choices...), Case: c.caseString()}
	for _, p := range c.points {
		v.Labels = append(v.Labels, p.label)
	}
	if doShrink {
		wl, wc, wf, wcase := shr.shrink(v.Labels, c.choices, c.fail)
		v.WitnessLabels, v.WitnessChoices, v.WitnessFailure, v.Witness = wl, wc, *wf, wcase
	} else {
		v.WitnessLabels, v.WitnessChoices, v.WitnessFailure, v.Witness = v.Labels, v.Choices, v.Failure, v.Case
	}
	res.ShrinkExecs = shr.execs
	return v
}

func equalInts(a, b []int) bool {
	if len(a) != len(b) {
		return false
	}
	for i := range a {
		if a[i] != b[i] {
			return false
		}
	}
	return true
}

type shrinker struct {
	body  func(*Ctx)
	memo  map[string]*Failure
	execs int64
	tier  string
}

func keyedOf(labels []string, choices []int) map[string][]int {
	m := map[string][]int{}
	for i, l := range labels {
		m[l] = append(m[l], choices[i])
	}
	return m
}

func vecKey(labels []string, v []int) string {
	var sb strings.Builder
	for i, x := range v {
		if x != 0 {
			fmt.Fprintf(&sb, "%s#%d=%d,", labels[i], i, x)
		}
	}
	return sb.String()
}

// try runs the body in keyed-lenient mode and returns what it actually did.
func (s *shrinker) try(labels []string, v []int) (c *Ctx, ok bool) {
	c = &Ctx{lenient: true, keyed: keyedOf(labels, v), occ: map[string]int{}, Tier: s.tier}
	s.execs++
	out := runOnce(s.body, c)
	return c, !out.aborted
}

func nonzeroDevs(c *Ctx) int {
	n := 0
	for i, p := range c.points {
		if p.kind == kDev && c.choices[i] != 0 {
			n++
		}
	}
	return n
}

// simpler: fewer deviations first, then lexicographically smaller choices
// (a proper prefix is smaller).
func simpler(a, b *Ctx) bool {
	da, db := nonzeroDevs(a), nonzeroDevs(b)
	if da != db {
		return da < db
	}
	nz := func(c *Ctx) int {
		n := 0
		for _, x := range c.choices {
			if x != 0 {
				n++
			}
		}
		return n
	}
	if na, nb := nz(a), nz(b); na != nb {
		return na < nb
	}
	if len(a.choices) != len(b.choices) {
		return len(a.choices) < len(b.choices)
	}
	for i := range a.choices {
		if a.choices[i] != b.choices[i] {
			return a.choices[i] < b.choices[i]
		}
	}
	return false
}

func labelsOf(c *Ctx) []string {
	out := make([]string, len(c.points))
	for i, p := range c.points {
		out[i] = p.label
	}
	return out
}

func (s *shrinker) shrink(labels []string, v []int, f *Failure) ([]string, []int, *Failure, string) {
	cur, ok := s.try(labels, v)
	if !ok || !sameFailure(cur.fail, f) {
		// keyed replay does not reproduce it (should not happen): keep the original
		c := &Ctx{prefix: v, lenient: true, Tier: s.tier}
		runOnce(s.body, c)
		return labels, v, f, c.caseString()
	}
	improved := true
	for rounds := 0; improved && rounds < 50; rounds++ {
		improved = false
		for i := 0; i < len(cur.choices); i++ {
			if cur.choices[i] == 0 {
				continue
			}
			ls := labelsOf(cur)
			for alt := 0; alt < cur.choices[i]; alt++ {
				cand := append([]int{}, cur.choices...)
				cand[i] = alt
				k := vecKey(ls, cand)
				if mf, seen := s.memo[k]; seen && !sameFailure(mf, f) {
					continue
				}
				nc, ok := s.try(ls, cand)
				if !ok {
					continue
				}
				s.memo[k] = nc.fail
				if sameFailure(nc.fail, f) && simpler(nc, cur) {
					cur = nc
					improved = true
					break
				}
			}
		}
		if nc := s.deletePass(cur, f); nc != nil {
			cur = nc
			improved = true
		}
	}
	return labelsOf(cur), cur.choices, cur.fail, cur.caseString()
}

// deletePass tries to drop one recorded choice (so that later points with the
// same label move up one occurrence): removes a call from a call sequence, a
// value from a value list, … Returns the improved run or nil.
func (s *shrinker) deletePass(cur *Ctx, f *Failure) *Ctx {
	ls := labelsOf(cur)
	count := map[string]int{}
	for _, l := range ls {
		count[l]++
	}
	for i := len(ls) - 1; i >= 0; i-- {
		if count[ls[i]] < 2 {
			continue
		}
		nl := append(append([]string{}, ls[:i]...), ls[i+1:]...)
		nv := append(append([]int{}, cur.choices[:i]...), cur.choices[i+1:]...)
		k := "del:" + vecKey(nl, nv)
		if mf, seen := s.memo[k]; seen && !sameFailure(mf, f) {
			continue
		}
		nc, ok := s.try(nl, nv)
		if !ok {
			continue
		}
		s.memo[k] = nc.fail
		if sameFailure(nc.fail, f) && simpler(nc, cur) {
			return nc
		}
	}
	return nil
}

// Replay runs one choice vector (strictly) and returns failure and case.
func Replay(body func(*Ctx), labels []string, choices []int, tier string) (*Failure, string, []int) {
	c := &Ctx{prefix: choices, lenient: true, Tier: tier}
	if len(labels) == len(choices) && len(labels) > 0 {
		c.keyed, c.occ = keyedOf(labels, choices), map[string]int{}
	}
	runOnce(body, c)
	return c.fail, c.caseString(), c.choices
}

// SortedKeys returns the digests in ascending order.
func SortedKeys(m map[uint64]struct{}) []uint64 {
	out := make([]uint64, 0, len(m))
	for k := range m {
		out = append(out, k)
	}
	sort.Slice(out, func(i, j int) bool { return out[i] < out[j] })
	return out
}

// Shrink exposes the shrinker (used by tests and by `vp replay --shrink`).
func Shrink(body func(*Ctx), labels []string, choices []int, f *Failure, tier string) ([]string, []int, *Failure, string) {
	s := &shrinker{body: body, memo: map[string]*Failure{}, tier: tier}
	return s.shrink(labels, choices, f)
}
