package mc

import (
	"fmt"
	"os"
	"sort"
)

var selfchecks = map[string]func() error{}

// RegisterSelfcheck adds an oracle self-check (reference vs reference).
func RegisterSelfcheck(name string, f func() error) { selfchecks[name] = f }

// RunSelfchecks runs them all; failure is an internal error (exit 2).
func RunSelfchecks() int {
	var names []string
	for n := range selfchecks {
		names = append(names, n)
	}
	sort.Strings(names)
	rc := 0
	for _, n := range names {
		if err := selfchecks[n](); err != nil {
			fmt.Fprintf(os.Stderr, "INTERNAL selfcheck %s: %v\n", n, err)
			rc = 2
		} else {
			fmt.Printf("selfcheck %s ok\n", n)
		}
	}
	return rc
}
