package mc

import (
	"bytes"
	"encoding/binary"
	"encoding/json"
	"fmt"
	"os"
	"os/exec"
	"path/filepath"
	"regexp"
	"runtime"
	"runtime/pprof"
	"sort"
	"strconv"
	"strings"
	"sync"
	"time"
)

// Tier configures one tier of a check.
type Tier struct {
	Bound       int
	MaxExec     int64 // per worker, 0 = unlimited
	DeadlineSec int   // internal deadline (exit 0, exhaustive:false), 0 = none
}

// Check is what each property registers.
type Check struct {
	ID          string
	Title       string
	Rule        string // how cases are enumerated and what makes one non-trivial
	Bounds      map[string]string
	Assumptions []string
	Body        func(*Ctx)
	Tiers       map[string]Tier
	// Workers overrides the worker count (0 = one per core).
	Workers int
	// Pre runs once in the parent before workers start (build CLI, overlays…);
	// the returned environment is passed to workers; cleanup runs at the end.
	Pre func(tier, scratch string) (env []string, err error)
	// Post lets the check add measured keys to the coverage object.
	Post func(tier, scratch string, cov map[string]interface{}) (extraViolations []*Violation, err error)
	// FatalIsViolation: a worker killed by a fatal runtime error inside ion-go is
	// a violation of this property (otherwise an internal error).
	WorkerMemMB int
	// WorkerVMemKB sets `ulimit -v` for workers (0 = none).
	WorkerVMemKB int
	// HangSec enables the parent's watchdog on the announced case (0 = off).
	HangSec int
	// MaxShrink caps per-worker individual shrinking (0 = default); later failures are still reported, unshrunk.
	MaxShrink int
}

var registry = map[string]*Check{}

// Register adds a check.
func Register(c *Check) { registry[c.ID] = c }

// Lookup finds a check.
func Lookup(id string) *Check { return registry[id] }

// IDs lists registered checks.
func IDs() []string {
	var ids []string
	for id := range registry {
		ids = append(ids, id)
	}
	sort.Strings(ids)
	return ids
}

type workerOut struct {
	Execs         int64            `json:"execs"`
	Transitions   int64            `json:"transitions"`
	Points        int64            `json:"points"`
	Skipped       map[string]int64 `json:"skipped"`
	Failing       int64            `json:"failing"`
	Violations    []*Violation     `json:"violations"`
	Samples       []string         `json:"samples"`
	Exhaustive    bool             `json:"exhaustive"`
	CapHit        string           `json:"cap_hit"`
	Internal      string           `json:"internal"`
	MaxDevs       int              `json:"max_devs"`
	ShrinkExecs   int64            `json:"shrink_execs"`
	WallS         float64          `json:"wall_s"`
	DigestsCapped bool             `json:"digests_capped"`
}

func writeDigests(path string, m map[uint64]struct{}) error {
	ks := SortedKeys(m)
	buf := make([]byte, 8*len(ks))
	for i, k := range ks {
		binary.LittleEndian.PutUint64(buf[8*i:], k)
	}
	return os.WriteFile(path, buf, 0o644)
}

// digestSet counts distinct digests over the workers' sorted files without a map (a deep tier
// produces hundreds of millions of them; as map entries they would need tens of gigabytes).
type digestSet struct{ runs [][]uint64 }

func readDigests(path string, into *digestSet) error {
	b, err := os.ReadFile(path)
	if err != nil {
		return err
	}
	run := make([]uint64, 0, len(b)/8)
	for i := 0; i+8 <= len(b); i += 8 {
		run = append(run, binary.LittleEndian.Uint64(b[i:]))
	}
	into.runs = append(into.runs, run)
	return nil
}

// count merges the sorted runs and counts distinct values.
func (d *digestSet) count() int {
	idx := make([]int, len(d.runs))
	n := 0
	var last uint64
	first := true
	for {
		best := -1
		for i, r := range d.runs {
			if idx[i] < len(r) && (best < 0 || r[idx[i]] < d.runs[best][idx[best]]) {
				best = i
			}
		}
		if best < 0 {
			return n
		}
		v := d.runs[best][idx[best]]
		idx[best]++
		if first || v != last {
			n++
			last, first = v, false
		}
	}
}

// announce file: the worker records the choice vector it is about to execute so
// that a fatal runtime error (which no recover can catch) is attributed.
var announceF *os.File

// Announce writes the current case marker (used by bodies right before they
// hand control to ion-go for an input that might kill the process).
func (c *Ctx) Announce() {
	if announceF == nil {
		return
	}
	var sb strings.Builder
	for _, x := range c.choices {
		sb.WriteString(strconv.Itoa(x))
		sb.WriteByte(',')
	}
	sb.WriteString("\n")
	sb.WriteString(c.caseString())
	b := []byte(sb.String())
	announceF.Truncate(0)
	announceF.WriteAt(b, 0)
}

// WorkerMain runs one shard and writes its result files.
func WorkerMain(id, tier string, shardIdx, shardN int, outBase string) int {
	ck := Lookup(id)
	if ck == nil {
		fmt.Fprintf(os.Stderr, "unknown check %s\n", id)
		return 2
	}
	t, ok := ck.Tiers[tier]
	if !ok {
		fmt.Fprintf(os.Stderr, "check %s has no tier %s\n", id, tier)
		return 2
	}
	var err error
	announceF, err = os.OpenFile(outBase+".announce", os.O_CREATE|os.O_RDWR|os.O_TRUNC, 0o644)
	if err != nil {
		fmt.Fprintln(os.Stderr, err)
		return 2
	}
	cfg := Config{Bound: t.Bound, ShardIdx: shardIdx, ShardN: shardN, MaxExec: t.MaxExec, Tier: tier, MaxShrink: ck.MaxShrink}
	if v, _ := strconv.ParseInt(os.Getenv("VERIF_MAXEXEC"), 10, 64); v > 0 {
		cfg.MaxExec = v // debugging aid: cap executions per worker (evidence then says exhaustive:false)
	}
	if tier == "thorough" && t.DeadlineSec == 0 {
		// Safety net for the deep tiers: a worker still exploring after 25 minutes stops, the run
		// exits 0 and the evidence says exhaustive:false with the cap that was hit. (The quick tier,
		// which has no deadline, is the complete exploration of its smaller bounds.)
		t.DeadlineSec = 1500
	}
	if t.DeadlineSec > 0 {
		cfg.Deadline = time.Now().Add(time.Duration(t.DeadlineSec) * time.Second)
	}
	start := time.Now()
	if pf := os.Getenv("VERIF_CPUPROFILE"); pf != "" {
		f, _ := os.Create(pf)
		pprof.StartCPUProfile(f)
		defer pprof.StopCPUProfile()
	}
	res := Explore(cfg, ck.Body)
	wo := workerOut{
		Execs: res.Execs, Transitions: res.Transitions, Points: res.Points, Skipped: res.Skipped,
		Failing: res.Failing, Violations: res.Violations, Samples: res.Samples, Exhaustive: res.Exhaustive,
		CapHit: res.CapHit, DigestsCapped: res.DigestsCapped, Internal: res.Internal, MaxDevs: res.MaxDevs, ShrinkExecs: res.ShrinkExecs,
		WallS: time.Since(start).Seconds(),
	}
	if err := writeDigests(outBase+".states", res.States); err != nil {
		fmt.Fprintln(os.Stderr, err)
		return 2
	}
	if err := writeDigests(outBase+".nontriv", res.Nontrivial); err != nil {
		fmt.Fprintln(os.Stderr, err)
		return 2
	}
	b, _ := json.Marshal(wo)
	if err := os.WriteFile(outBase+".json", b, 0o644); err != nil {
		fmt.Fprintln(os.Stderr, err)
		return 2
	}
	return 0
}

// Finding is one entry of known_findings.json.
type Finding struct {
	Kind         string `json:"kind"` // finding | fixed
	Property     string `json:"property"`
	FailureClass string `json:"failure_class,omitempty"`
	Key          string `json:"key,omitempty"`
	Witness      string `json:"witness,omitempty"`
	What         string `json:"what"`
	Commit       string `json:"commit,omitempty"`
	ReplayTest   string `json:"replay_test,omitempty"`
}

type findingsFile struct {
	Version int       `json:"version"`
	Entries []Finding `json:"entries"`
}

// LoadFindings reads known_findings.json (read-only at run time).
func LoadFindings(path string) ([]Finding, error) {
	b, err := os.ReadFile(path)
	if err != nil {
		if os.IsNotExist(err) {
			return nil, nil
		}
		return nil, err
	}
	var ff findingsFile
	if err := json.Unmarshal(b, &ff); err != nil {
		return nil, fmt.Errorf("known_findings.json: %v", err)
	}
	return ff.Entries, nil
}

var ionFrame = regexp.MustCompile(`github\.com/amzn/ion-go/`)

// RunCheck is the parent: forks workers, merges, matches known findings, writes evidence.
func RunCheck(id, tier, verifDir, self string) int {
	ck := Lookup(id)
	if ck == nil {
		fmt.Fprintf(os.Stderr, "unknown check %s\n", id)
		return 2
	}
	t, ok := ck.Tiers[tier]
	if !ok {
		fmt.Fprintf(os.Stderr, "check %s has no tier %s\n", id, tier)
		return 2
	}
	start := time.Now()
	seed, _ := strconv.Atoi(os.Getenv("VERIF_SEED"))
	scratch := filepath.Join(verifDir, ".build", fmt.Sprintf("run-%s-%d", id, os.Getpid()))
	if err := os.MkdirAll(scratch, 0o755); err != nil {
		fmt.Fprintln(os.Stderr, err)
		return 2
	}
	defer os.RemoveAll(scratch)

	findings, err := LoadFindings(filepath.Join(verifDir, "known_findings.json"))
	if err != nil {
		fmt.Fprintln(os.Stderr, err)
		return 2
	}

	var env []string
	if ck.Pre != nil {
		env, err = ck.Pre(tier, scratch)
		if err != nil {
			fmt.Fprintf(os.Stderr, "INTERNAL %s: pre: %v\n", id, err)
			return 2
		}
	}

	n := ck.Workers
	if n == 0 {
		n = runtime.NumCPU()
		if v, _ := strconv.Atoi(os.Getenv("VERIF_WORKERS")); v > 0 {
			n = v
		}
	}
	type wres struct {
		out    workerOut
		err    error
		stderr string
		died   bool
		hung   bool
		ann    string
	}
	results := make([]wres, n)
	var wg sync.WaitGroup
	for i := 0; i < n; i++ {
		wg.Add(1)
		go func(i int) {
			defer wg.Done()
			base := filepath.Join(scratch, fmt.Sprintf("w%d", i))
			bin := self
			for _, e := range env {
				if strings.HasPrefix(e, "VERIF_WORKER_BIN=") {
					bin = strings.TrimPrefix(e, "VERIF_WORKER_BIN=") // e.g. the instrumented build of C18
				}
			}
			cmd := exec.Command(bin, "worker", id, tier, strconv.Itoa(i), strconv.Itoa(n), base)
			if ck.WorkerVMemKB > 0 {
				// address-space limit: a runaway allocation kills this worker, not the sandbox
				cmd = exec.Command("/bin/sh", "-c", fmt.Sprintf("ulimit -v %d; exec \"$0\" \"$@\"", ck.WorkerVMemKB),
					self, "worker", id, tier, strconv.Itoa(i), strconv.Itoa(n), base)
			}
			cmd.Env = append(append(os.Environ(), "GOMAXPROCS=1", "GOGC=400", "VERIF_SCRATCH="+scratch), env...)
			if ck.WorkerMemMB > 0 {
				cmd.Env = append(cmd.Env, fmt.Sprintf("GOMEMLIMIT=%dMiB", ck.WorkerMemMB))
			}
			var eb bytes.Buffer
			cmd.Stderr = &eb
			cmd.Stdout = &eb
			var err error
			hung := false
			if ck.HangSec > 0 {
				// watchdog: a worker whose announced case does not change for HangSec seconds is killed
				if err = cmd.Start(); err == nil {
					done := make(chan error, 1)
					go func() { done <- cmd.Wait() }()
					last, lastChange := "", time.Now()
				loop:
					for {
						select {
						case err = <-done:
							break loop
						case <-time.After(2 * time.Second):
							b, _ := os.ReadFile(base + ".announce")
							if string(b) != last {
								last, lastChange = string(b), time.Now()
							} else if last != "" && time.Since(lastChange) > time.Duration(ck.HangSec)*time.Second {
								cmd.Process.Kill()
								err = <-done
								hung = true
								break loop
							}
						}
					}
				}
			} else {
				err = cmd.Run()
			}
			r := &results[i]
			r.hung = hung
			r.stderr = eb.String()
			if err != nil {
				r.err = err
				r.died = true
				if b, e := os.ReadFile(base + ".announce"); e == nil {
					r.ann = string(b)
				}
				return
			}
			b, err := os.ReadFile(base + ".json")
			if err != nil {
				r.err = err
				return
			}
			r.err = json.Unmarshal(b, &r.out)
		}(i)
	}
	wg.Wait()

	statesSet, nontrivSet := &digestSet{}, &digestSet{}
	digestsCapped := false
	var tot workerOut
	tot.Exhaustive = true
	tot.Skipped = map[string]int64{}
	var samples []string
	var internal []string
	var caps []string
	var viols []*Violation
	for i := range results {
		r := &results[i]
		if r.died {
			tot.Exhaustive = false
			if r.hung {
				lines := strings.SplitN(r.ann, "\n", 2)
				cs := ""
				if len(lines) == 2 {
					cs = lines[1]
				}
				viols = append(viols, &Violation{
					Failure:        Failure{Class: "hang", Key: "no-progress", Detail: fmt.Sprintf("worker made no progress for %d s on this case", ck.HangSec)},
					Case:           cs,
					Witness:        cs,
					WitnessFailure: Failure{Class: "hang", Key: "no-progress", Detail: fmt.Sprintf("worker made no progress for %d s on this case", ck.HangSec)},
					Count:          1,
				})
			} else if ionFrame.MatchString(r.stderr) && (strings.Contains(r.stderr, "fatal error:") || strings.Contains(r.stderr, "panic:")) {
				lines := strings.SplitN(r.ann, "\n", 2)
				cs := ""
				if len(lines) == 2 {
					cs = lines[1]
				}
				msg := firstLine(r.stderr, "fatal error:", "panic:")
				viols = append(viols, &Violation{
					Failure:        Failure{Class: "fatal", Key: msg, Detail: tail(r.stderr, 3000)},
					Case:           cs,
					Witness:        cs,
					WitnessFailure: Failure{Class: "fatal", Key: msg},
					Count:          1,
				})
			} else {
				internal = append(internal, fmt.Sprintf("worker %d died: %v\n%s", i, r.err, tail(r.stderr, 4000)))
			}
			continue
		}
		if r.err != nil {
			internal = append(internal, fmt.Sprintf("worker %d: %v\n%s", i, r.err, tail(r.stderr, 2000)))
			continue
		}
		base := filepath.Join(scratch, fmt.Sprintf("w%d", i))
		readDigests(base+".states", statesSet)
		readDigests(base+".nontriv", nontrivSet)
		o := r.out
		tot.Execs += o.Execs
		tot.Transitions += o.Transitions
		tot.Points += o.Points
		tot.Failing += o.Failing
		tot.ShrinkExecs += o.ShrinkExecs
		for k, v := range o.Skipped {
			tot.Skipped[k] += v
		}
		if !o.Exhaustive {
			tot.Exhaustive = false
			if o.CapHit != "" {
				caps = append(caps, fmt.Sprintf("worker %d: %s", i, o.CapHit))
			}
		}
		if o.DigestsCapped {
			digestsCapped = true
		}
		if o.Internal != "" {
			internal = append(internal, fmt.Sprintf("worker %d: %s", i, o.Internal))
		}
		if o.MaxDevs > tot.MaxDevs {
			tot.MaxDevs = o.MaxDevs
		}
		if len(samples) < 10 {
			for _, s := range o.Samples {
				if len(samples) < 10 {
					samples = append(samples, s)
				}
			}
		}
		viols = append(viols, o.Violations...)
	}

	nStates, nNontriv := statesSet.count(), nontrivSet.count()
	statesSet, nontrivSet = nil, nil
	cov := map[string]interface{}{}
	if ck.Post != nil {
		extra, err := ck.Post(tier, scratch, cov)
		if err != nil {
			internal = append(internal, "post: "+err.Error())
		}
		viols = append(viols, extra...)
	}

	// merge violations by witness across workers
	merged := map[string]*Violation{}
	var order []string
	for _, v := range viols {
		k := v.WitnessFailure.Class + "\x00" + v.WitnessFailure.Key + "\x00" + v.Witness
		if old, ok := merged[k]; ok {
			old.Count += v.Count
		} else {
			merged[k] = v
			order = append(order, k)
		}
	}
	sort.Strings(order)

	// attribute to known findings
	hit := map[int]int64{}
	var fresh []*Violation
	for _, k := range order {
		v := merged[k]
		v.Property = id
		matched := false
		for fi, f := range findings {
			if f.Kind != "finding" || f.Property != id {
				continue
			}
			if f.FailureClass == v.WitnessFailure.Class && f.Key == v.WitnessFailure.Key && f.Witness == v.Witness {
				hit[fi] += v.Count
				matched = true
				break
			}
		}
		if !matched {
			fresh = append(fresh, v)
		}
	}

	exit := 0
	for fi, f := range findings {
		if hit[fi] > 0 {
			fmt.Printf("KNOWN-FINDING: property=%s %s [class=%s witness=%s] (%d executions)\n", id, f.What, f.FailureClass, f.Witness, hit[fi])
		}
	}
	replayDir := filepath.Join(verifDir, "replays", id)
	if len(fresh) > 0 {
		os.MkdirAll(replayDir, 0o755)
	}
	var freshSamples []interface{}
	for i, v := range fresh {
		b, _ := json.MarshalIndent(v, "", " ")
		name := fmt.Sprintf("%s-%016x.json", tier, fnvStr(v.WitnessFailure.Class+v.WitnessFailure.Key+v.Witness))
		p := filepath.Join(replayDir, name)
		os.WriteFile(p, b, 0o644)
		if i < 40 {
			fmt.Printf("VIOLATION property=%s replay=%s\n", id, p)
			fmt.Printf("  class=%s key=%s count=%d\n  witness: %s\n  detail: %s\n", v.WitnessFailure.Class, v.WitnessFailure.Key, v.Count, clip(v.Witness, 600), clip(v.WitnessFailure.Detail, 600))
		}
		if i < 5 {
			freshSamples = append(freshSamples, map[string]interface{}{"class": v.WitnessFailure.Class, "key": v.WitnessFailure.Key, "witness": clip(v.Witness, 400)})
		}
		exit = 1
	}
	if len(fresh) > 40 {
		fmt.Printf("  ... %d more violations (replay files written)\n", len(fresh)-40)
	}
	if len(internal) > 0 {
		for _, s := range internal {
			fmt.Fprintf(os.Stderr, "INTERNAL %s: %s\n", id, s)
		}
		if exit == 0 {
			exit = 2
		}
	}

	// evidence
	var knownList []interface{}
	for fi, f := range findings {
		if hit[fi] > 0 {
			knownList = append(knownList, map[string]interface{}{"what": f.What, "witness": f.Witness, "executions": hit[fi]})
		}
	}
	ss := make([]interface{}, 0, len(samples))
	for _, s := range samples {
		ss = append(ss, clip(s, 500))
	}
	if len(ss) == 0 {
		ss = append(ss, "(no sample captured)")
	}
	cov["evaluations"] = tot.Execs
	cov["distinct_nontrivial"] = nNontriv
	cov["rule"] = ck.Rule
	cov["samples"] = ss
	cov["states"] = nStates
	if digestsCapped {
		cov["states_note"] = "distinct-state and distinct-nontrivial figures are lower bounds: a worker stops recording digests after 6,000,000"
	}
	cov["transitions"] = tot.Transitions + tot.Points
	cov["api_calls_on_implementation"] = tot.Transitions
	cov["choice_edges"] = tot.Points
	cov["traces_validated_against_impl"] = tot.Execs
	cov["exhaustive"] = tot.Exhaustive && len(internal) == 0
	cov["deviation_bound"] = t.Bound
	cov["max_deviations_seen"] = tot.MaxDevs
	cov["workers"] = n
	cov["out_of_domain_cases"] = tot.Skipped
	cov["failing_executions"] = tot.Failing
	cov["shrink_executions"] = tot.ShrinkExecs
	cov["known_findings_hit"] = knownList
	cov["new_violations"] = freshSamples
	if len(caps) > 0 {
		cov["caps_hit"] = caps
	}
	if ck.Bounds != nil {
		cov["bounds"] = ck.Bounds
	}
	ev := map[string]interface{}{
		"property_id": id,
		"tier":        tier,
		"seed":        seed,
		"level":       "model_checking",
		"coverage":    cov,
		"assumptions": ck.Assumptions,
		"wall_s":      time.Since(start).Seconds(),
		"violations":  len(fresh),
	}
	eb, _ := json.MarshalIndent(ev, "", " ")
	os.MkdirAll(filepath.Join(verifDir, "evidence"), 0o755)
	if err := os.WriteFile(filepath.Join(verifDir, "evidence", id+".json"), append(eb, '\n'), 0o644); err != nil {
		fmt.Fprintln(os.Stderr, err)
		return 2
	}
	fmt.Printf("%s %s: executions=%d states=%d nontrivial=%d transitions=%d failing=%d new=%d known=%d exhaustive=%v wall=%.1fs\n",
		id, tier, tot.Execs, nStates, nNontriv, tot.Transitions+tot.Points, tot.Failing, len(fresh), len(knownList), cov["exhaustive"], time.Since(start).Seconds())
	return exit
}

func fnvStr(s string) uint64 {
	h := uint64(14695981039346656037)
	for i := 0; i < len(s); i++ {
		h ^= uint64(s[i])
		h *= 1099511628211
	}
	return h
}

func clip(s string, n int) string {
	if len(s) <= n {
		return s
	}
	return s[:n] + fmt.Sprintf("…(+%d bytes)", len(s)-n)
}

func tail(s string, n int) string {
	if len(s) <= n {
		return s
	}
	return s[len(s)-n:]
}

func firstLine(s string, markers ...string) string {
	for _, ln := range strings.Split(s, "\n") {
		for _, m := range markers {
			if strings.Contains(ln, m) {
				return strings.TrimSpace(ln)
			}
		}
	}
	return ""
}

// ReplayFile re-runs one replay file without the explorer.
func ReplayFile(path string) int {
	b, err := os.ReadFile(path)
	if err != nil {
		fmt.Fprintln(os.Stderr, err)
		return 2
	}
	var v Violation
	if err := json.Unmarshal(b, &v); err != nil {
		fmt.Fprintln(os.Stderr, err)
		return 2
	}
	ck := Lookup(v.Property)
	if ck == nil {
		fmt.Fprintf(os.Stderr, "unknown check %q\n", v.Property)
		return 2
	}
	vec, labels := v.WitnessChoices, v.WitnessLabels
	if vec == nil {
		vec, labels = v.Choices, v.Labels
	}
	f, cs, _ := Replay(ck.Body, labels, vec, "quick")
	fmt.Printf("case: %s\n", cs)
	if f == nil {
		fmt.Println("replay: property holds on this case now")
		return 0
	}
	fmt.Printf("replay: FAIL class=%s key=%s\n%s\n", f.Class, f.Key, f.Detail)
	fmt.Printf("VIOLATION property=%s replay=%s\n", v.Property, path)
	return 1
}
