// Package refsym is the reference symbol-ID space and the reader-side symbol
// table context machine (DESIGN Appendix A.3). Independent of ion-go.
package refsym

import (
	"fmt"
	"math/big"

	rm "verif/internal/refmodel"
)

// Slot is one symbol ID's content.
type Slot struct {
	Text    string
	Defined bool
	// Padding marks a slot that exists only because an import declared a max_id beyond the
	// shared table's length (or the table is absent): its text is undefined, never "".
	Padding bool
}

// Table is a symbol ID space; Slots[0] is SID 1.
type Table struct {
	Slots []Slot
}

var systemTexts = []string{"$ion", "$ion_1_0", "$ion_symbol_table", "name", "version", "imports", "symbols", "max_id", "$ion_shared_symbol_table"}

// System returns a fresh system table (SIDs 1..9).
func System() *Table {
	t := &Table{}
	for _, s := range systemTexts {
		t.Slots = append(t.Slots, Slot{Text: s, Defined: true})
	}
	return t
}

func (t *Table) MaxID() int64 { return int64(len(t.Slots)) }

// ByID: inRange false ⇒ error; defined false ⇒ unknown text.
func (t *Table) ByID(id int64) (text string, defined, inRange bool) {
	if id == 0 {
		return "", false, true
	}
	if id < 0 || id > int64(len(t.Slots)) {
		return "", false, false
	}
	s := t.Slots[id-1]
	return s.Text, s.Defined, true
}

// ByName returns the lowest ID carrying text.
func (t *Table) ByName(text string) (int64, bool) {
	for i, s := range t.Slots {
		if s.Defined && s.Text == text {
			return int64(i + 1), true
		}
	}
	return 0, false
}

// Shared is a shared symbol table in the reference catalog.
type Shared struct {
	Name    string
	Version int
	Symbols []string // "" = undefined slot (ion-go's documented padding value)
}

// Catalog is a list of shared tables.
type Catalog []Shared

func (c Catalog) exact(name string, ver int) *Shared {
	for i := range c {
		if c[i].Name == name && c[i].Version == ver {
			return &c[i]
		}
	}
	return nil
}

func (c Catalog) latest(name string) *Shared {
	var best *Shared
	for i := range c {
		if c[i].Name == name && (best == nil || c[i].Version > best.Version) {
			best = &c[i]
		}
	}
	return best
}

// ImportSlots returns the max slots an import contributes.
func ImportSlots(sh *Shared, max int64) []Slot {
	out := make([]Slot, 0, max)
	for i := int64(0); i < max; i++ {
		if sh != nil && i < int64(len(sh.Symbols)) && sh.Symbols[i] != "" {
			out = append(out, Slot{Text: sh.Symbols[i], Defined: true})
		} else {
			out = append(out, Slot{Padding: sh == nil || i >= int64(len(sh.Symbols))})
		}
	}
	return out
}

// ImportDecl is an import as declared in a stream.
type ImportDecl struct {
	Name    string
	Version int64
	MaxID   int64 // -1 = absent/unusable
}

// TableInfo describes one local symbol table met in a stream.
type TableInfo struct {
	Append  bool
	Imports []ImportDecl
	Symbols []Slot
	// Unsure is set when the struct uses a construct the specification leaves
	// open (repeated imports/symbols fields); callers must not judge such streams.
	Unsure bool
}

// Result of resolving a raw stream.
type Result struct {
	Values []*rm.Value
	Tables []TableInfo
	// MaxIDs[i] is the symbol table MaxID in force when Values[i] was met.
	MaxIDs []int64
	Unsure bool
	Final  *Table
}

// MaxImportSlots bounds placeholder growth in the reference itself.
const MaxImportSlots = 1 << 22

// On error the returned Result still holds the values resolved before it.
// Resolve runs the reader-side context machine over raw top-level values (as
// produced by reftext.Parse or refbin.DecodeRaw) and returns the user values
// with every symbol resolved to text or marked unknown.
func Resolve(raw []*rm.Value, cat Catalog) (*Result, error) {
	res := &Result{}
	ctx := System()
	for _, v := range raw {
		if v.Type == rm.Symbol && !v.Null && len(v.Annots) == 0 && v.Sym.HasText && v.Sym.Text == "$ion_1_0" && !v.Sym.Quoted {
			ctx = System()
			continue
		}
		if v.Type == rm.Struct && !v.Null && len(v.Annots) > 0 {
			first, err := resolveSym(v.Annots[0], ctx)
			if err != nil {
				return res, err
			}
			if first.HasText && first.Text == "$ion_symbol_table" {
				nt, info, err := processLST(v, ctx, cat)
				if err != nil {
					return res, err
				}
				if info.Unsure {
					res.Unsure = true
				}
				res.Tables = append(res.Tables, *info)
				ctx = nt
				continue
			}
		}
		u, err := resolveValue(v, ctx)
		if err != nil {
			return res, err
		}
		res.Values = append(res.Values, u)
		res.MaxIDs = append(res.MaxIDs, ctx.MaxID())
	}
	res.Final = ctx
	return res, nil
}

func resolveSym(s rm.Sym, ctx *Table) (rm.Sym, error) {
	if s.HasText {
		return rm.Sym{Text: s.Text, HasText: true}, nil
	}
	text, def, ok := ctx.ByID(s.SID)
	if !ok {
		return s, fmt.Errorf("refsym: symbol ID %d is not defined (max_id %d)", s.SID, ctx.MaxID())
	}
	if !def {
		return rm.NoText(s.SID), nil
	}
	return rm.T(text), nil
}

func resolveValue(v *rm.Value, ctx *Table) (*rm.Value, error) {
	c := *v
	c.Annots = nil
	for _, a := range v.Annots {
		r, err := resolveSym(a, ctx)
		if err != nil {
			return nil, err
		}
		c.Annots = append(c.Annots, r)
	}
	if v.Field != nil {
		r, err := resolveSym(*v.Field, ctx)
		if err != nil {
			return nil, err
		}
		c.Field = &r
	}
	if v.Type == rm.Symbol && !v.Null {
		r, err := resolveSym(v.Sym, ctx)
		if err != nil {
			return nil, err
		}
		c.Sym = r
	}
	c.Kids = nil
	for _, k := range v.Kids {
		r, err := resolveValue(k, ctx)
		if err != nil {
			return nil, err
		}
		c.Kids = append(c.Kids, r)
	}
	return &c, nil
}

func intOf(v *rm.Value) (*big.Int, bool) {
	if v.Type == rm.Int && !v.Null {
		return v.Int, true
	}
	return nil, false
}

func processLST(v *rm.Value, ctx *Table, cat Catalog) (*Table, *TableInfo, error) {
	info := &TableInfo{}
	// every symbol ID inside the table struct must itself be defined (by the context in force)
	if _, err := resolveValue(v, ctx); err != nil {
		return nil, nil, err
	}
	var importsV, symbolsV *rm.Value
	for _, k := range v.Kids {
		if k.Field == nil {
			continue
		}
		f, err := resolveSym(*k.Field, ctx)
		if err != nil {
			return nil, nil, err
		}
		if !f.HasText {
			continue
		}
		switch f.Text {
		case "imports":
			if importsV != nil {
				info.Unsure = true
			}
			importsV = k
		case "symbols":
			if symbolsV != nil {
				info.Unsure = true
			}
			symbolsV = k
		}
	}
	nt := System()
	if importsV != nil && !importsV.Null {
		switch importsV.Type {
		case rm.Symbol:
			s, err := resolveSym(importsV.Sym, ctx)
			if err != nil {
				return nil, nil, err
			}
			if s.HasText && s.Text == "$ion_symbol_table" {
				info.Append = true
				nt = &Table{Slots: append([]Slot{}, ctx.Slots...)}
			}
		case rm.List:
			for _, imp := range importsV.Kids {
				if imp.Type != rm.Struct || imp.Null {
					continue
				}
				decl := ImportDecl{Version: 1, MaxID: -1}
				nameOK := false
				for _, f := range imp.Kids {
					if f.Field == nil {
						continue
					}
					fs, err := resolveSym(*f.Field, ctx)
					if err != nil {
						return nil, nil, err
					}
					if !fs.HasText {
						continue
					}
					switch fs.Text {
					case "name":
						if f.Type == rm.String && !f.Null && f.Text != "" {
							decl.Name = f.Text
							nameOK = true
						} else {
							nameOK = false
						}
					case "version":
						if i, ok := intOf(f); ok && i.Sign() > 0 && i.IsInt64() {
							decl.Version = i.Int64()
						} else {
							decl.Version = 1
						}
					case "max_id":
						if i, ok := intOf(f); ok && i.Sign() >= 0 && i.IsInt64() {
							decl.MaxID = i.Int64()
						} else {
							decl.MaxID = -1
						}
					}
				}
				if !nameOK || decl.Name == "$ion" {
					continue
				}
				info.Imports = append(info.Imports, decl)
				var sh *Shared
				if decl.Version <= 1<<31 {
					sh = cat.exact(decl.Name, int(decl.Version))
				}
				max := decl.MaxID
				if max < 0 {
					if sh == nil {
						return nil, nil, fmt.Errorf("refsym: import %q version %d has no usable max_id and no exact catalog match", decl.Name, decl.Version)
					}
					max = int64(len(sh.Symbols))
				}
				if sh == nil {
					sh = cat.latest(decl.Name)
				}
				if max > MaxImportSlots {
					return nil, nil, fmt.Errorf("refsym: import max_id %d beyond what the reference materialises", max)
				}
				nt.Slots = append(nt.Slots, ImportSlots(sh, max)...)
			}
		}
	}
	if symbolsV != nil && !symbolsV.Null && symbolsV.Type == rm.List {
		for _, s := range symbolsV.Kids {
			if s.Type == rm.String && !s.Null {
				sl := Slot{Text: s.Text, Defined: true}
				nt.Slots = append(nt.Slots, sl)
				info.Symbols = append(info.Symbols, sl)
			} else {
				nt.Slots = append(nt.Slots, Slot{})
				info.Symbols = append(info.Symbols, Slot{})
			}
		}
	}
	return nt, info, nil
}
