// Package sched is the cooperative scheduler used by C18: each "thread" is a goroutine
// that runs only while it holds the baton; at every scheduling point the explorer
// chooses which thread continues. Staying on the running thread is the default
// answer; switching away from a runnable thread costs one deviation (a preemption).
package sched

import (
	"fmt"
	"reflect"
	"strings"

	"verif/internal/mc"
)

// Access is one instrumented access to shared state.
type Access struct {
	Thread int
	Key    string // address/field or package variable
	Loc    string // Type.field or "var name" (stable across runs)
	Write  bool
	Seq    int
}

// Conflict is a pair of accesses to the same location from different threads, one a write.
type Conflict struct {
	Key  string
	A, B Access
}

func (c Conflict) String() string {
	k := func(a Access) string {
		if a.Write {
			return fmt.Sprintf("T%d write", a.Thread)
		}
		return fmt.Sprintf("T%d read", a.Thread)
	}
	return fmt.Sprintf("%s: %s / %s", c.A.Loc, k(c.A), k(c.B))
}

type thread struct {
	id     int
	resume chan struct{}
	done   bool
	pan    interface{}
}

// Sched runs one execution.
type Sched struct {
	c        *mc.Ctx
	threads  []*thread
	cur      int
	yield    chan int // a thread announces it reached a point (or finished)
	Accesses []Access
	Points   int
	Switches []int // schedule as the sequence of thread ids chosen at each point
	// Relevant, when non-nil, limits preemption to points on keys for which it returns true
	// (reads of never-written locations commute with everything).
	Relevant func(loc string) bool
	active   bool
}

var current *Sched

// Hook is installed as ion.VerifAccess.
func Hook(obj interface{}, loc string, write bool) {
	s := current
	if s == nil || !s.active {
		return
	}
	key := loc
	if obj != nil {
		rv := reflect.ValueOf(obj)
		if rv.Kind() == reflect.Ptr {
			field := loc
			if i := strings.LastIndex(loc, "."); i >= 0 {
				field = loc[i+1:]
			}
			key = fmt.Sprintf("%x.%s", rv.Pointer(), field)
		}
	}
	s.point(key, loc, write, true)
}

// Point is a scheduling point without a shared-state access (e.g. an io.Writer call).
func Point(label string) {
	s := current
	if s == nil || !s.active {
		return
	}
	s.point("", label, false, false)
}

func (s *Sched) point(key, loc string, write, record bool) {
	t := s.threads[s.cur]
	if record {
		s.Accesses = append(s.Accesses, Access{Thread: t.id, Key: key, Loc: loc, Write: write, Seq: len(s.Accesses)})
	}
	if record && s.Relevant != nil && !s.Relevant(loc) {
		return // no preemption opportunity here
	}
	s.Points++
	s.yield <- t.id
	<-t.resume
}

// Run executes bodies as cooperative threads under c's schedule choices and returns when
// all have finished. A panic in a body is returned (first one).
func Run(c *mc.Ctx, relevant func(string) bool, first int, bodies ...func()) (s *Sched, pan interface{}) {
	s = &Sched{c: c, yield: make(chan int), Relevant: relevant}
	for i := range bodies {
		s.threads = append(s.threads, &thread{id: i, resume: make(chan struct{})})
	}
	current = s
	s.active = true
	defer func() { s.active = false; current = nil }()
	for i, b := range bodies {
		t := s.threads[i]
		body := b
		go func() {
			<-t.resume
			defer func() {
				if r := recover(); r != nil {
					t.pan = r
				}
				t.done = true
				s.yield <- -1 - t.id
			}()
			body()
		}()
	}
	// initial choice: which thread starts (free; the caller may fix it to shard the search)
	if first >= 0 && first < len(s.threads) {
		s.cur = first
		s.Switches = append(s.Switches, first)
	} else {
		s.cur = s.pick(-1)
	}
	s.threads[s.cur].resume <- struct{}{}
	for {
		<-s.yield
		// the current thread either reached a point or finished
		alive := 0
		for _, t := range s.threads {
			if !t.done {
				alive++
			}
		}
		if alive == 0 {
			break
		}
		running := -1
		if !s.threads[s.cur].done {
			running = s.cur
		}
		s.cur = s.pick(running)
		s.threads[s.cur].resume <- struct{}{}
	}
	for _, t := range s.threads {
		if t.pan != nil {
			return s, t.pan
		}
	}
	return s, nil
}

// pick chooses the next thread. Canonical order: the running thread first if still
// enabled (choosing another one then is a preemption = Dev), else ascending ids (free = Pick).
func (s *Sched) pick(running int) int {
	var enabled []int
	if running >= 0 {
		enabled = append(enabled, running)
	}
	for _, t := range s.threads {
		if !t.done && t.id != running {
			enabled = append(enabled, t.id)
		}
	}
	var k int
	if len(enabled) == 1 {
		k = 0
	} else if running >= 0 {
		k = s.c.Dev("preempt", len(enabled))
	} else {
		k = s.c.Pick("next-thread", len(enabled))
	}
	s.Switches = append(s.Switches, enabled[k])
	return enabled[k]
}

// Conflicts returns the conflicting pairs of this execution (one per location).
func (s *Sched) Conflicts() []Conflict {
	byKey := map[string][]Access{}
	for _, a := range s.Accesses {
		byKey[a.Key] = append(byKey[a.Key], a)
	}
	var out []Conflict
	for k, as := range byKey {
		found := false
		for i := 0; i < len(as) && !found; i++ {
			for j := i + 1; j < len(as) && !found; j++ {
				if as[i].Thread != as[j].Thread && (as[i].Write || as[j].Write) {
					out = append(out, Conflict{Key: k, A: as[i], B: as[j]})
					found = true
				}
			}
		}
	}
	return out
}
