// Package sched is the cooperative scheduler used by C18: each "thread" is a goroutine
// that runs only while it holds the baton; at every scheduling point the explorer
// chooses which thread continues. Staying on the running thread is the default
// answer; switching away from a runnable thread costs one deviation (a preemption).
//
// Mutex, RWMutex, Once and sync/atomic operations of the instrumented package are modelled:
// a thread waiting for a lock is not enabled (so the real Lock call never blocks), "no enabled
// thread" is a deadlock, and every release/acquire pair is a happens-before edge recorded in
// vector clocks. Two accesses conflict only if neither happens before the other.
package sched

import (
	"fmt"
	"reflect"
	"strings"

	"verif/internal/mc"
)

// Access is one instrumented access to shared state.
type Access struct {
	Thread int
	Key    string // address/field or package variable
	Loc    string // Type.field or "var name" (stable across runs)
	Write  bool
	Seq    int
	Atomic bool  // performed through sync/atomic
	VC     []int // the thread's vector clock at the access
}

// Conflict is a pair of accesses to the same location from different threads, one a write.
type Conflict struct {
	Key  string
	A, B Access
}

func (c Conflict) String() string {
	k := func(a Access) string {
		if a.Write {
			return fmt.Sprintf("T%d write", a.Thread)
		}
		return fmt.Sprintf("T%d read", a.Thread)
	}
	return fmt.Sprintf("%s: %s / %s", c.A.Loc, k(c.A), k(c.B))
}

type thread struct {
	id     int
	resume chan struct{}
	done   bool
	pan    interface{}
	vc     []int
	want   *want // the lock this thread is waiting for, if any
}

// want is a pending acquisition: the thread is enabled only when it can be granted.
type want struct {
	key  string
	mode int // 0 exclusive, 1 shared, 2 once-completion
}

// syncObj models one Mutex / RWMutex / Once / atomic variable: who holds it and the vector
// clocks released through it (the happens-before edges the Go memory model promises).
type syncObj struct {
	writer    int // thread holding it exclusively, -1 if none
	readers   map[int]int
	rel, rrel []int
	once      int // 0 not started, 1 running, 2 done
	onceOwner int
}

func join(a, b []int) []int {
	out := append([]int{}, a...)
	for len(out) < len(b) {
		out = append(out, 0)
	}
	for i := range b {
		if b[i] > out[i] {
			out[i] = b[i]
		}
	}
	return out
}

// Sched runs one execution.
type Sched struct {
	c        *mc.Ctx
	threads  []*thread
	cur      int
	yield    chan int // a thread announces it reached a point (or finished)
	Accesses []Access
	Points   int
	Switches []int // schedule as the sequence of thread ids chosen at each point
	// Relevant, when non-nil, limits preemption to points on keys for which it returns true
	// (reads of never-written locations commute with everything).
	Relevant func(loc string) bool
	active   bool
	// MaxPreempt, when > 0, caps the preemptions of this execution below the explorer's bound.
	MaxPreempt int
	preempts   int
	alive      map[uintptr]interface{}
	sync       map[string]*syncObj
	SyncOps  int
	Deadlock string
}

var current *Sched

// Hook is installed as ion.VerifAccess.
func Hook(obj interface{}, loc string, write bool) {
	s := current
	if s == nil || !s.active {
		return
	}
	op := ""
	if strings.HasPrefix(loc, "sync:") {
		rest := loc[len("sync:"):]
		if i := strings.Index(rest, ":"); i >= 0 {
			op, loc = rest[:i], rest[i+1:]
		} else {
			op, loc = rest, ""
		}
	}
	key := loc
	if obj != nil {
		rv := reflect.ValueOf(obj)
		if rv.Kind() == reflect.Ptr {
			field := loc
			if i := strings.LastIndex(loc, "."); i >= 0 {
				field = loc[i+1:]
			}
			key = fmt.Sprintf("%x.%s", rv.Pointer(), field)
			// Objects are identified by address, so every object seen is kept alive until the
			// execution ends: otherwise the collector may hand the address of one thread's dead
			// private object to another thread's new one, and their accesses would look like a conflict.
			if _, seen := s.alive[rv.Pointer()]; !seen {
				s.alive[rv.Pointer()] = obj
			}
		}
	}
	if op != "" {
		s.syncOp(op, key, loc)
		return
	}
	s.point(key, loc, write, true)
}

// Point is a scheduling point without a shared-state access (e.g. an io.Writer call).
func Point(label string) {
	s := current
	if s == nil || !s.active {
		return
	}
	s.point("", label, false, false)
}

func (s *Sched) obj(key string) *syncObj {
	o := s.sync[key]
	if o == nil {
		o = &syncObj{writer: -1, readers: map[int]int{}, onceOwner: -1}
		s.sync[key] = o
	}
	return o
}

// yield is an unconditional scheduling point of the running thread.
func (s *Sched) yield1() {
	t := s.threads[s.cur]
	s.Points++
	s.yield <- t.id
	<-t.resume
}

func (s *Sched) record(t *thread, key, loc string, write, atomic bool) {
	s.Accesses = append(s.Accesses, Access{Thread: t.id, Key: key, Loc: loc, Write: write, Seq: len(s.Accesses), Atomic: atomic, VC: append([]int{}, t.vc...)})
}

// syncOp models a synchronisation operation. The hook runs immediately before the real
// operation; acquisitions wait here (the thread is not enabled until the lock can be
// granted), so the real call that follows never blocks.
func (s *Sched) syncOp(op, key, loc string) {
	t := s.threads[s.cur]
	o := s.obj(key)
	s.SyncOps++
	switch op {
	case "Lock", "RLock":
		mode := 0
		if op == "RLock" {
			mode = 1
		}
		t.want = &want{key, mode}
		s.yield1()
		t.want = nil
		if mode == 0 {
			o.writer = t.id
			t.vc = join(join(t.vc, o.rel), o.rrel)
		} else {
			o.readers[t.id]++
			t.vc = join(t.vc, o.rel)
		}
	case "Unlock":
		s.yield1()
		o.writer = -1
		o.rel = join(o.rel, t.vc)
		t.vc[t.id]++
	case "RUnlock":
		s.yield1()
		if o.readers[t.id] > 0 {
			o.readers[t.id]--
		}
		o.rrel = join(o.rrel, t.vc)
		t.vc[t.id]++
	case "Once.Do":
		s.yield1()
		switch {
		case o.once == 0:
			o.once, o.onceOwner = 1, t.id
		case o.once == 1 && o.onceOwner != t.id:
			t.want = &want{key, 2}
			s.yield1()
			t.want = nil
			t.vc = join(t.vc, o.rel)
		case o.once == 2:
			t.vc = join(t.vc, o.rel)
		}
	case "Once.Done":
		if o.once == 1 && o.onceOwner == t.id {
			o.once = 2
			o.rel = join(o.rel, t.vc)
			t.vc[t.id]++
		}
		s.yield1()
	case "atomic.Load":
		s.yield1()
		t.vc = join(t.vc, o.rel)
		s.record(t, key, loc, false, true)
	case "atomic.Store":
		s.yield1()
		t.vc = join(t.vc, o.rel)
		s.record(t, key, loc, true, true)
		o.rel = join(o.rel, t.vc)
		t.vc[t.id]++
	}
}

// granted reports whether t's pending acquisition can proceed.
func (s *Sched) granted(t *thread) bool {
	if t.want == nil {
		return true
	}
	o := s.obj(t.want.key)
	switch t.want.mode {
	case 0:
		if o.writer >= 0 {
			return false
		}
		for _, n := range o.readers {
			if n > 0 {
				return false
			}
		}
		return true
	case 1:
		return o.writer < 0
	}
	return o.once == 2
}

func (s *Sched) point(key, loc string, write, record bool) {
	t := s.threads[s.cur]
	if record {
		s.record(t, key, loc, write, false)
	}
	if record && s.Relevant != nil && !s.Relevant(loc) {
		return // no preemption opportunity here
	}
	s.Points++
	s.yield <- t.id
	<-t.resume
}

// Run executes bodies as cooperative threads under c's schedule choices and returns when
// all have finished. A panic in a body is returned (first one).
func Run(c *mc.Ctx, relevant func(string) bool, first int, bodies ...func()) (s *Sched, pan interface{}) {
	return RunLimited(c, relevant, first, 0, bodies...)
}

// RunLimited is Run with at most maxPreempt preemptions (0 = the explorer's bound only).
func RunLimited(c *mc.Ctx, relevant func(string) bool, first, maxPreempt int, bodies ...func()) (s *Sched, pan interface{}) {
	s = &Sched{c: c, yield: make(chan int), Relevant: relevant, sync: map[string]*syncObj{}, MaxPreempt: maxPreempt, alive: map[uintptr]interface{}{}}
	for i := range bodies {
		vc := make([]int, len(bodies))
		vc[i] = 1
		s.threads = append(s.threads, &thread{id: i, resume: make(chan struct{}), vc: vc})
	}
	current = s
	s.active = true
	defer func() { s.active = false; current = nil }()
	for i, b := range bodies {
		t := s.threads[i]
		body := b
		go func() {
			<-t.resume
			defer func() {
				if r := recover(); r != nil {
					t.pan = r
				}
				t.done = true
				s.yield <- -1 - t.id
			}()
			body()
		}()
	}
	// initial choice: which thread starts (free; the caller may fix it to shard the search)
	if first >= 0 && first < len(s.threads) {
		s.cur = first
		s.Switches = append(s.Switches, first)
	} else {
		s.cur = s.pick(-1)
	}
	s.threads[s.cur].resume <- struct{}{}
	for {
		<-s.yield
		// the current thread either reached a point or finished
		alive := 0
		for _, t := range s.threads {
			if !t.done {
				alive++
			}
		}
		if alive == 0 {
			break
		}
		running := -1
		if !s.threads[s.cur].done && s.granted(s.threads[s.cur]) {
			running = s.cur
		}
		next := s.pick(running)
		if next < 0 {
			// every live thread waits for a lock another one holds; the parked goroutines are abandoned
			var ws []string
			for _, t := range s.threads {
				if !t.done && t.want != nil {
					ws = append(ws, fmt.Sprintf("T%d waits for %s", t.id, t.want.key))
				}
			}
			s.Deadlock = strings.Join(ws, ", ")
			return s, "deadlock: " + s.Deadlock
		}
		s.cur = next
		s.threads[s.cur].resume <- struct{}{}
	}
	for _, t := range s.threads {
		if t.pan != nil {
			return s, t.pan
		}
	}
	return s, nil
}

// pick chooses the next thread. Canonical order: the running thread first if still
// enabled (choosing another one then is a preemption = Dev), else ascending ids (free = Pick).
func (s *Sched) pick(running int) int {
	var enabled []int
	if running >= 0 {
		enabled = append(enabled, running)
	}
	for _, t := range s.threads {
		if !t.done && t.id != running && s.granted(t) {
			enabled = append(enabled, t.id)
		}
	}
	if len(enabled) == 0 {
		return -1
	}
	var k int
	if len(enabled) == 1 {
		k = 0
	} else if running >= 0 {
		if s.MaxPreempt > 0 && s.preempts >= s.MaxPreempt {
			k = 0
		} else {
			k = s.c.Dev("preempt", len(enabled))
			if k != 0 {
				s.preempts++
			}
		}
	} else {
		k = s.c.Pick("next-thread", len(enabled))
	}
	s.Switches = append(s.Switches, enabled[k])
	return enabled[k]
}

// Conflicts returns the conflicting pairs of this execution (one per location).
func (s *Sched) Conflicts() []Conflict {
	byKey := map[string][]Access{}
	for _, a := range s.Accesses {
		byKey[a.Key] = append(byKey[a.Key], a)
	}
	var out []Conflict
	for k, as := range byKey {
		found := false
		for i := 0; i < len(as) && !found; i++ {
			for j := i + 1; j < len(as) && !found; j++ {
				if as[i].Thread != as[j].Thread && (as[i].Write || as[j].Write) && !(as[i].Atomic && as[j].Atomic) && !ordered(as[i], as[j]) {
					out = append(out, Conflict{Key: k, A: as[i], B: as[j]})
					found = true
				}
			}
		}
	}
	return out
}

// ordered reports whether the earlier access a happens before the later access b through
// the modelled synchronisation (a's epoch is known to b's thread).
func ordered(a, b Access) bool {
	if a.Thread >= len(a.VC) || a.Thread >= len(b.VC) {
		return false
	}
	return a.VC[a.Thread] <= b.VC[a.Thread]
}
