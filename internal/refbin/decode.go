// Package refbin is an independent Ion 1.0 binary codec written from the
// specification: an encoder with representation choice points and a strict
// decoder/validator. It does not import ion-go.
package refbin

import (
	"errors"
	"fmt"
	"math"
	"math/big"
	"unicode/utf8"

	rm "verif/internal/refmodel"
)

// BVM is the Ion 1.0 binary version marker.
var BVM = []byte{0xE0, 0x01, 0x00, 0xEA}

// VersionMarker is how a BVM appears in the raw value sequence: the same
// shape a text parser gives the unquoted top-level symbol $ion_1_0.
func VersionMarker() *rm.Value { return &rm.Value{Type: rm.Symbol, Sym: rm.T("$ion_1_0")} }

// Unsure is returned for constructs the specification leaves open; callers must
// neither accept nor reject on its basis.
type Unsure struct{ What string }

func (u Unsure) Error() string { return "refbin: unsure: " + u.What }

// IsUnsure reports whether err is an Unsure marker.
func IsUnsure(err error) bool { _, ok := err.(Unsure); return ok }

type dec struct {
	b []byte
}

func errf(pos int, format string, a ...interface{}) error {
	return fmt.Errorf("refbin: offset %d: %s", pos, fmt.Sprintf(format, a...))
}

// DecodeRaw validates b as Ion 1.0 binary and returns the top-level items in
// order: version markers (see VersionMarker) and values whose symbols are
// unresolved SID references (Sym{HasText:false,SID:n}). Symbol-table
// processing is refsym's job.
func DecodeRaw(b []byte) (vals []*rm.Value, err error) {
	defer func() {
		if r := recover(); r != nil {
			err = fmt.Errorf("refbin: internal: %v", r)
		}
	}()
	if len(b) < 4 || b[0] != 0xE0 || b[1] != 0x01 || b[2] != 0x00 || b[3] != 0xEA {
		return nil, errors.New("refbin: stream does not start with the Ion 1.0 version marker")
	}
	d := &dec{b}
	pos := 0
	for pos < len(b) {
		if b[pos] == 0xE0 {
			if pos+4 > len(b) || b[pos+1] != 0x01 || b[pos+2] != 0x00 || b[pos+3] != 0xEA {
				return nil, errf(pos, "bad version marker")
			}
			vals = append(vals, VersionMarker())
			pos += 4
			continue
		}
		v, np, pad, err := d.value(pos, len(b))
		if err != nil {
			return nil, err
		}
		pos = np
		if !pad {
			vals = append(vals, v)
		}
	}
	return vals, nil
}

// varUint reads a VarUInt in [pos,end).
func (d *dec) varUint(pos, end int) (uint64, int, error) {
	var v uint64
	for i := pos; i < end; i++ {
		c := d.b[i]
		if v>>57 != 0 {
			return 0, 0, errf(pos, "VarUInt overflows 64 bits")
		}
		v = v<<7 | uint64(c&0x7F)
		if c&0x80 != 0 {
			return v, i + 1, nil
		}
	}
	return 0, 0, errf(pos, "VarUInt runs past its container")
}

// varInt reads a VarInt; negZero reports the -0 form.
func (d *dec) varInt(pos, end int) (v int64, negZero bool, np int, err error) {
	if pos >= end {
		return 0, false, 0, errf(pos, "VarInt missing")
	}
	c := d.b[pos]
	neg := c&0x40 != 0
	mag := uint64(c & 0x3F)
	i := pos
	for c&0x80 == 0 {
		i++
		if i >= end {
			return 0, false, 0, errf(pos, "VarInt runs past its container")
		}
		c = d.b[i]
		if mag>>56 != 0 {
			return 0, false, 0, errf(pos, "VarInt overflows")
		}
		mag = mag<<7 | uint64(c&0x7F)
	}
	if mag > math.MaxInt64 {
		return 0, false, 0, errf(pos, "VarInt overflows")
	}
	v = int64(mag)
	if neg {
		v = -v
	}
	return v, neg && mag == 0, i + 1, nil
}

func (d *dec) uintField(pos, end int) *big.Int {
	return new(big.Int).SetBytes(d.b[pos:end])
}

// intField reads a sign-and-magnitude Int; empty = 0.
func (d *dec) intField(pos, end int) (*big.Int, bool) {
	if pos >= end {
		return new(big.Int), false
	}
	bs := append([]byte(nil), d.b[pos:end]...)
	neg := bs[0]&0x80 != 0
	bs[0] &= 0x7F
	v := new(big.Int).SetBytes(bs)
	if neg {
		if v.Sign() == 0 {
			return v, true
		}
		v.Neg(v)
	}
	return v, false
}

// value decodes one value starting at pos inside a container ending at end.
// pad is true for NOP padding.
func (d *dec) value(pos, end int) (v *rm.Value, np int, pad bool, err error) {
	if pos >= end {
		return nil, 0, false, errf(pos, "value expected")
	}
	tag := d.b[pos]
	t, l := int(tag>>4), int(tag&0x0F)
	p := pos + 1
	if t == 15 {
		return nil, 0, false, errf(pos, "reserved type code 15")
	}
	if l == 15 {
		if t == 14 {
			return nil, 0, false, errf(pos, "annotation wrapper with L=15")
		}
		return &rm.Value{Type: binType(t), Null: true}, p, false, nil
	}
	if t == 1 {
		switch l {
		case 0, 1:
			return &rm.Value{Type: rm.Bool, Bool: l == 1}, p, false, nil
		}
		return nil, 0, false, errf(pos, "bool with L=%d", l)
	}
	length := uint64(l)
	if l == 14 || (t == 13 && l == 1) {
		length, p, err = d.varUint(p, end)
		if err != nil {
			return nil, 0, false, err
		}
	}
	if length > uint64(end-p) {
		return nil, 0, false, errf(pos, "declared length %d overruns its container (%d bytes left)", length, end-p)
	}
	ve := p + int(length)
	switch t {
	case 0:
		return nil, ve, true, nil
	case 2, 3:
		m := d.uintField(p, ve)
		if t == 3 {
			if m.Sign() == 0 {
				return nil, 0, false, errf(pos, "negative int with zero magnitude")
			}
			m.Neg(m)
		}
		return &rm.Value{Type: rm.Int, Int: m}, ve, false, nil
	case 4:
		switch length {
		case 0:
			return rm.FloatV(0), ve, false, nil
		case 4:
			bits := uint32(d.uintField(p, ve).Uint64())
			return rm.FloatV(float64(math.Float32frombits(bits))), ve, false, nil
		case 8:
			return rm.FloatV(math.Float64frombits(d.uintField(p, ve).Uint64())), ve, false, nil
		}
		return nil, 0, false, errf(pos, "float with length %d", length)
	case 5:
		if length == 0 {
			return rm.DecV(new(big.Int), 0, false), ve, false, nil
		}
		exp, _, q, err := d.varInt(p, ve)
		if err != nil {
			return nil, 0, false, err
		}
		coef, nz := d.intField(q, ve)
		return rm.DecV(coef, exp, nz), ve, false, nil
	case 6:
		ts, err := d.timestamp(pos, p, ve)
		if err != nil {
			return nil, 0, false, err
		}
		return rm.TSV(ts), ve, false, nil
	case 7:
		m := d.uintField(p, ve)
		if !m.IsInt64() {
			return nil, 0, false, errf(pos, "symbol ID too large")
		}
		return rm.SymTok(rm.NoText(m.Int64())), ve, false, nil
	case 8:
		if !utf8.Valid(d.b[p:ve]) {
			return nil, 0, false, errf(pos, "string is not valid UTF-8")
		}
		return rm.StrV(string(d.b[p:ve])), ve, false, nil
	case 9:
		return rm.ClobV(append([]byte{}, d.b[p:ve]...)), ve, false, nil
	case 10:
		return rm.BlobV(append([]byte{}, d.b[p:ve]...)), ve, false, nil
	case 11, 12:
		out := &rm.Value{Type: binType(t)}
		q := p
		for q < ve {
			k, nq, kp, err := d.value(q, ve)
			if err != nil {
				return nil, 0, false, err
			}
			q = nq
			if !kp {
				out.Kids = append(out.Kids, k)
			}
		}
		return out, ve, false, nil
	case 13:
		if l == 1 && length == 0 {
			return nil, 0, false, errf(pos, "sorted struct with no fields")
		}
		out := &rm.Value{Type: rm.Struct}
		q := p
		for q < ve {
			sid, nq, err := d.varUint(q, ve)
			if err != nil {
				return nil, 0, false, err
			}
			if sid > math.MaxInt64 {
				return nil, 0, false, errf(q, "field symbol ID too large")
			}
			k, nq2, kp, err := d.value(nq, ve)
			if err != nil {
				return nil, 0, false, err
			}
			q = nq2
			if !kp {
				f := rm.NoText(int64(sid))
				k.Field = &f
				out.Kids = append(out.Kids, k)
			}
		}
		return out, ve, false, nil
	case 14:
		if length < 3 && l != 14 || l < 3 {
			return nil, 0, false, errf(pos, "annotation wrapper with L=%d", l)
		}
		alen, q, err := d.varUint(p, ve)
		if err != nil {
			return nil, 0, false, err
		}
		if alen == 0 {
			return nil, 0, false, errf(pos, "annotation wrapper with no annotations")
		}
		if alen > uint64(ve-q) {
			return nil, 0, false, errf(pos, "annot_length overruns wrapper")
		}
		ae := q + int(alen)
		var annots []rm.Sym
		for q < ae {
			sid, nq, err := d.varUint(q, ae)
			if err != nil {
				return nil, 0, false, err
			}
			if sid > math.MaxInt64 {
				return nil, 0, false, errf(q, "annotation symbol ID too large")
			}
			annots = append(annots, rm.NoText(int64(sid)))
			q = nq
		}
		if q >= ve {
			return nil, 0, false, errf(pos, "annotation wrapper without a value")
		}
		if d.b[q]>>4 == 14 {
			return nil, 0, false, errf(q, "annotation wrapper inside annotation wrapper")
		}
		inner, nq, ipad, err := d.value(q, ve)
		if err != nil {
			return nil, 0, false, err
		}
		if ipad {
			return nil, 0, false, errf(q, "annotation wrapper around NOP padding")
		}
		if nq != ve {
			return nil, 0, false, errf(pos, "annotation wrapper length %d does not match its content", length)
		}
		inner.Annots = annots
		return inner, ve, false, nil
	}
	return nil, 0, false, errf(pos, "unreachable type %d", t)
}

func binType(t int) rm.Type {
	switch t {
	case 0:
		return rm.Null
	case 1:
		return rm.Bool
	case 2, 3:
		return rm.Int
	case 4:
		return rm.Float
	case 5:
		return rm.Decimal
	case 6:
		return rm.Timestamp
	case 7:
		return rm.Symbol
	case 8:
		return rm.String
	case 9:
		return rm.Clob
	case 10:
		return rm.Blob
	case 11:
		return rm.List
	case 12:
		return rm.Sexp
	case 13:
		return rm.Struct
	}
	panic("binType")
}

func (d *dec) timestamp(pos, p, ve int) (rm.TS, error) {
	var ts rm.TS
	if ve-p < 2 {
		return ts, errf(pos, "timestamp shorter than offset+year")
	}
	off, unk, q, err := d.varInt(p, ve)
	if err != nil {
		return ts, err
	}
	if off <= -1440 || off >= 1440 {
		return ts, errf(pos, "timestamp offset %d out of range", off)
	}
	rd := func(name string, lo, hi uint64) (int, error) {
		v, nq, err := d.varUint(q, ve)
		if err != nil {
			return 0, err
		}
		q = nq
		if v < lo || v > hi {
			return 0, errf(pos, "timestamp %s %d out of range", name, v)
		}
		return int(v), nil
	}
	// the stored fields are UTC: year 0 / 10000 can occur when the offset moves the local year into 1..9999
	y, err := rd("year", 0, 10000)
	if err != nil {
		return ts, err
	}
	mo, da, h, mi, s := 1, 1, 0, 0, 0
	prec := rm.PYear
	if q < ve {
		if mo, err = rd("month", 1, 12); err != nil {
			return ts, err
		}
		prec = rm.PMonth
	}
	if q < ve {
		if da, err = rd("day", 1, uint64(rm.DaysIn(y, mo))); err != nil {
			return ts, err
		}
		prec = rm.PDay
	}
	if q < ve {
		if h, err = rd("hour", 0, 23); err != nil {
			return ts, err
		}
		if q >= ve {
			return ts, errf(pos, "timestamp with hour but no minute")
		}
		if mi, err = rd("minute", 0, 59); err != nil {
			return ts, err
		}
		prec = rm.PMinute
	}
	if q < ve {
		if s, err = rd("second", 0, 59); err != nil {
			return ts, err
		}
		prec = rm.PSecond
	}
	ts.Prec = prec
	ts.Second = s
	if q < ve {
		fe, _, nq, err := d.varInt(q, ve)
		if err != nil {
			return ts, err
		}
		coef, _ := d.intField(nq, ve)
		if coef.Sign() < 0 {
			return ts, errf(pos, "negative timestamp fraction")
		}
		if fe >= 0 {
			if coef.Sign() != 0 {
				return ts, errf(pos, "timestamp fraction >= 1")
			}
			// a zero fraction with a non-negative exponent: the specification does not say
			// whether this is "no fraction" or an error; nobody may be judged on it
			return ts, Unsure{fmt.Sprintf("offset %d: timestamp fraction 0d%d", pos, fe)}
		} else {
			if fe < -1000000 {
				return ts, errf(pos, "timestamp fraction exponent %d unreasonable", fe)
			}
			lim := new(big.Int).Exp(big.NewInt(10), big.NewInt(-fe), nil)
			if coef.Cmp(lim) >= 0 {
				return ts, errf(pos, "timestamp fraction >= 1")
			}
			ts.FracDigits = int(-fe)
			ts.FracCoef = coef
		}
	}
	if prec >= rm.PMinute {
		ts.OffsetKnown = !unk
		if ts.OffsetKnown {
			ts.OffsetMin = int(off)
		}
		ts.Year, ts.Month, ts.Day, ts.Hour, ts.Minute = rm.FromUTC(y, mo, da, h, mi, ts.OffsetKnown, ts.OffsetMin)
	} else {
		ts.Year, ts.Month, ts.Day = y, mo, da
	}
	if ts.Year < 1 || ts.Year > 9999 {
		return ts, errf(pos, "timestamp year %d out of range", ts.Year)
	}
	return ts, nil
}

// ReadVarUint decodes one VarUInt at the start of b (reference implementation).
func ReadVarUint(b []byte) (uint64, int, error) {
	d := &dec{b}
	return d.varUint(0, len(b))
}

// ReadVarInt decodes one VarInt at the start of b.
func ReadVarInt(b []byte) (v int64, negZero bool, n int, err error) {
	d := &dec{b}
	return d.varInt(0, len(b))
}

// ReadUint decodes a whole-slice UInt field.
func ReadUint(b []byte) *big.Int { return new(big.Int).SetBytes(b) }

// ReadInt decodes a whole-slice Int field.
func ReadInt(b []byte) (*big.Int, bool) {
	d := &dec{b}
	return d.intField(0, len(b))
}
