package refbin

import (
	"fmt"
	"math"
	"math/big"

	rm "verif/internal/refmodel"
)

// Encoder turns model values into Ion 1.0 binary. Every representation freedom
// the format allows is requested from Ch as a Dev point (alternative 0 is the
// canonical encoding). SID maps symbol text to the ID to emit; symbols with
// unknown text are emitted with their own SID.
type Encoder struct {
	Ch  rm.Chooser
	SID func(text string) uint64
	// NoNop suppresses NOP-pad choice points (used where pads are illegal or unwanted).
	NoNop bool
}

func (e *Encoder) dev(label string, n int) int { return e.Ch.Dev(label, n) }

// VarUint encodes v with pad leading zero groups.
func VarUint(v uint64, pad int) []byte {
	var tmp [10]byte
	i := len(tmp) - 1
	tmp[i] = byte(v&0x7F) | 0x80
	v >>= 7
	for v > 0 {
		i--
		tmp[i] = byte(v & 0x7F)
		v >>= 7
	}
	out := make([]byte, pad, pad+len(tmp)-i)
	return append(out, tmp[i:]...)
}

// VarInt encodes v (or -0 when negZero) with pad extra leading groups.
func VarInt(v int64, negZero bool, pad int) []byte {
	neg := v < 0 || negZero
	mag := uint64(v)
	if v < 0 {
		mag = uint64(-v)
	}
	// collect 7-bit groups, least significant first
	var groups []byte
	groups = append(groups, byte(mag&0x7F))
	mag >>= 7
	for mag > 0 {
		groups = append(groups, byte(mag&0x7F))
		mag >>= 7
	}
	// the first (most significant) group has only 6 value bits
	if groups[len(groups)-1]&0x40 != 0 {
		groups = append(groups, 0)
	}
	for i := 0; i < pad; i++ {
		groups = append(groups, 0)
	}
	out := make([]byte, len(groups))
	for i := range groups {
		out[i] = groups[len(groups)-1-i]
	}
	if neg {
		out[0] |= 0x40
	}
	out[len(out)-1] |= 0x80
	return out
}

// UintBytes is the big-endian magnitude with pad leading zero bytes (empty for 0 when pad==0).
func UintBytes(m *big.Int, pad int) []byte {
	return append(make([]byte, pad), m.Bytes()...)
}

// IntBytes is sign-and-magnitude with pad extra leading bytes.
func IntBytes(v *big.Int, negZero bool, pad int) []byte {
	neg := v.Sign() < 0 || negZero
	mag := new(big.Int).Abs(v).Bytes()
	if len(mag) == 0 || mag[0]&0x80 != 0 {
		mag = append([]byte{0}, mag...)
	}
	mag = append(make([]byte, pad), mag...)
	if neg {
		mag[0] |= 0x80
	}
	return mag
}

// tagged wraps body with a type descriptor; the length form is a choice.
func (e *Encoder) tagged(t byte, body []byte) []byte {
	n := len(body)
	form := 0
	if n < 14 {
		form = e.dev("len.form", 3) // 0 inline, 1 L=14+VarUInt, 2 L=14+padded VarUInt
	} else {
		form = 1 + e.dev("len.pad", 2)
	}
	var out []byte
	switch form {
	case 0:
		out = append(out, t<<4|byte(n))
	case 1:
		out = append(out, t<<4|14)
		out = append(out, VarUint(uint64(n), 0)...)
	case 2:
		out = append(out, t<<4|14)
		out = append(out, VarUint(uint64(n), 1)...)
	}
	return append(out, body...)
}

func (e *Encoder) sidOf(s rm.Sym) uint64 {
	if !s.HasText {
		return uint64(s.SID)
	}
	return e.SID(s.Text)
}

// Value encodes v including its annotations (not its field name).
func (e *Encoder) Value(v *rm.Value) []byte {
	body := e.bare(v)
	if len(v.Annots) == 0 {
		return body
	}
	var as []byte
	for _, a := range v.Annots {
		as = append(as, VarUint(e.sidOf(a), e.dev("annot.sid.pad", 2))...)
	}
	w := VarUint(uint64(len(as)), e.dev("annot.len.pad", 2))
	w = append(w, as...)
	w = append(w, body...)
	return e.tagged(14, w)
}

func float32Exact(f float64) bool {
	return !math.IsNaN(f) && math.Float64bits(float64(float32(f))) == math.Float64bits(f)
}

func (e *Encoder) bare(v *rm.Value) []byte {
	if v.Null {
		return []byte{typeCode(v.Type)<<4 | 0x0F}
	}
	switch v.Type {
	case rm.Bool:
		if v.Bool {
			return []byte{0x11}
		}
		return []byte{0x10}
	case rm.Int:
		t := byte(2)
		if v.Int.Sign() < 0 {
			t = 3
		}
		pad := e.dev("int.pad", 3)
		return e.tagged(t, UintBytes(new(big.Int).Abs(v.Int), pad))
	case rm.Float:
		f := v.Float
		bits := math.Float64bits(f)
		var b8 [8]byte
		for i := 0; i < 8; i++ {
			b8[i] = byte(bits >> (56 - 8*i))
		}
		var b4 [4]byte
		b32 := math.Float32bits(float32(f))
		for i := 0; i < 4; i++ {
			b4[i] = byte(b32 >> (24 - 8*i))
		}
		switch {
		case bits == 0:
			switch e.dev("float.zero", 3) {
			case 0:
				return []byte{0x40}
			case 1:
				return append([]byte{0x44}, b4[:]...)
			}
			return append([]byte{0x48}, b8[:]...)
		case math.IsNaN(f):
			if e.dev("float.width", 2) == 0 {
				return append([]byte{0x48}, b8[:]...)
			}
			return []byte{0x44, 0x7F, 0xC0, 0x00, 0x00}
		case float32Exact(f):
			if e.dev("float.width", 2) == 0 {
				return append([]byte{0x44}, b4[:]...)
			}
			return append([]byte{0x48}, b8[:]...)
		}
		return append([]byte{0x48}, b8[:]...)
	case rm.Decimal:
		d := v.Dec
		coef := d.Coef
		if coef == nil {
			coef = new(big.Int)
		}
		if coef.Sign() == 0 && d.Exp == 0 && !d.NegZero {
			switch e.dev("dec.zero", 3) {
			case 0:
				return []byte{0x50}
			case 1:
				return e.tagged(5, []byte{0x80})
			}
			return e.tagged(5, []byte{0x80, 0x00})
		}
		body := VarInt(d.Exp, false, e.dev("dec.exp.pad", 2))
		if coef.Sign() == 0 && !d.NegZero {
			if e.dev("dec.coef.zero", 2) == 1 {
				body = append(body, 0x00)
			}
		} else {
			body = append(body, IntBytes(coef, d.NegZero, e.dev("dec.coef.pad", 2))...)
		}
		return e.tagged(5, body)
	case rm.Timestamp:
		return e.tagged(6, e.timestamp(v.TS))
	case rm.Symbol:
		sid := e.sidOf(v.Sym)
		pad := e.dev("sym.pad", 2)
		return e.tagged(7, UintBytes(new(big.Int).SetUint64(sid), pad))
	case rm.String:
		return e.tagged(8, []byte(v.Text))
	case rm.Clob:
		return e.tagged(9, v.Bytes)
	case rm.Blob:
		return e.tagged(10, v.Bytes)
	case rm.List, rm.Sexp:
		var body []byte
		for _, k := range v.Kids {
			body = append(body, e.nop(false)...)
			body = append(body, e.Value(k)...)
		}
		body = append(body, e.nop(false)...)
		return e.tagged(typeCode(v.Type), body)
	case rm.Struct:
		var body []byte
		sorted := len(v.Kids) > 0
		var prev uint64
		for i, k := range v.Kids {
			body = append(body, e.nop(true)...)
			var sid uint64
			if k.Field != nil {
				sid = e.sidOf(*k.Field)
			}
			if i > 0 && sid < prev {
				sorted = false
			}
			prev = sid
			body = append(body, VarUint(sid, e.dev("field.pad", 2))...)
			body = append(body, e.Value(k)...)
		}
		body = append(body, e.nop(true)...)
		if sorted && len(body) > 0 && e.dev("struct.sorted", 2) == 1 {
			out := []byte{0xD1}
			out = append(out, VarUint(uint64(len(body)), 0)...)
			return append(out, body...)
		}
		return e.tagged(13, body)
	}
	panic(fmt.Sprintf("refbin: cannot encode %v", v.Type))
}

// nop returns NOP padding chosen by a Dev point (none by default).
func (e *Encoder) nop(inStruct bool) []byte {
	if e.NoNop {
		return nil
	}
	var pad []byte
	switch e.dev("nop", 4) {
	case 0:
		return nil
	case 1:
		pad = []byte{0x00}
	case 2:
		pad = []byte{0x01, 0xFF}
	case 3:
		pad = append([]byte{0x0E, 0x8F}, make([]byte, 15)...)
		pad[2] = 0xE0 // looks like a BVM lead byte; contents must be ignored
	}
	if inStruct {
		return append([]byte{0x80}, pad...)
	}
	return pad
}

// TopNop is the NOP-pad choice at top level.
func (e *Encoder) TopNop() []byte { return e.nop(false) }

func (e *Encoder) timestamp(t rm.TS) []byte {
	var b []byte
	y, mo, d, h, mi := t.UTCFields()
	if t.Prec >= rm.PMinute && t.OffsetKnown {
		b = append(b, VarInt(int64(t.OffsetMin), false, e.dev("ts.off.pad", 2))...)
	} else {
		b = append(b, 0xC0)
	}
	b = append(b, VarUint(uint64(y), e.dev("ts.year.pad", 2))...)
	if t.Prec >= rm.PMonth {
		b = append(b, VarUint(uint64(mo), 0)...)
	}
	if t.Prec >= rm.PDay {
		b = append(b, VarUint(uint64(d), 0)...)
	}
	if t.Prec >= rm.PMinute {
		b = append(b, VarUint(uint64(h), 0)...)
		b = append(b, VarUint(uint64(mi), 0)...)
	}
	if t.Prec >= rm.PSecond {
		b = append(b, VarUint(uint64(t.Second), 0)...)
		if t.FracDigits > 0 {
			b = append(b, VarInt(int64(-t.FracDigits), false, 0)...)
			fc := t.FracCoef
			if fc == nil {
				fc = new(big.Int)
			}
			if fc.Sign() == 0 {
				if e.dev("ts.frac.zero", 2) == 1 {
					b = append(b, 0x00)
				}
			} else {
				b = append(b, IntBytes(fc, false, e.dev("ts.frac.pad", 2))...)
			}
		}
	}
	return b
}

func typeCode(t rm.Type) byte {
	switch t {
	case rm.Null:
		return 0
	case rm.Bool:
		return 1
	case rm.Int:
		return 2
	case rm.Float:
		return 4
	case rm.Decimal:
		return 5
	case rm.Timestamp:
		return 6
	case rm.Symbol:
		return 7
	case rm.String:
		return 8
	case rm.Clob:
		return 9
	case rm.Blob:
		return 10
	case rm.List:
		return 11
	case rm.Sexp:
		return 12
	case rm.Struct:
		return 13
	}
	panic("typeCode")
}

// SystemSymbols are SIDs 1..9.
var SystemSymbols = []string{"$ion", "$ion_1_0", "$ion_symbol_table", "name", "version", "imports", "symbols", "max_id", "$ion_shared_symbol_table"}

// CollectSymbols lists the distinct symbol texts of vals in first-use order,
// system symbols excluded.
func CollectSymbols(vals []*rm.Value) []string {
	seen := map[string]bool{}
	for _, s := range SystemSymbols {
		seen[s] = true
	}
	var out []string
	add := func(s rm.Sym) {
		if s.HasText && !seen[s.Text] {
			seen[s.Text] = true
			out = append(out, s.Text)
		}
	}
	var walk func(v *rm.Value)
	walk = func(v *rm.Value) {
		if v.Field != nil {
			add(*v.Field)
		}
		for _, a := range v.Annots {
			add(a)
		}
		if v.Type == rm.Symbol && !v.Null {
			add(v.Sym)
		}
		for _, k := range v.Kids {
			walk(k)
		}
	}
	for _, v := range vals {
		walk(v)
	}
	return out
}

// LSTValue builds the model of a local symbol table struct declaring locals
// (and, if appendMode, `imports:$ion_symbol_table`).
func LSTValue(locals []string, appendMode bool) *rm.Value {
	st := &rm.Value{Type: rm.Struct, Annots: []rm.Sym{rm.T("$ion_symbol_table")}}
	if appendMode {
		st.Kids = append(st.Kids, rm.SymV("$ion_symbol_table").F("imports"))
	}
	lst := &rm.Value{Type: rm.List}
	for _, s := range locals {
		lst.Kids = append(lst.Kids, rm.StrV(s))
	}
	st.Kids = append(st.Kids, lst.F("symbols"))
	return st
}

// EncodeStream emits BVM, an LST defining every non-system symbol text used
// (if any), then the values; with choice points for NOP pads at top level and
// for repeating the version marker (+LST) before any later value.
func EncodeStream(ch rm.Chooser, vals []*rm.Value) []byte {
	var syms []string
	var ids map[string]uint64
	// declare (re)builds the table for the values from index i on: after a version marker only
	// the symbols still needed are declared, so their IDs differ from the first table's
	declare := func(i int) {
		syms = CollectSymbols(vals[i:])
		ids = map[string]uint64{}
		for k, s := range SystemSymbols {
			ids[s] = uint64(k + 1)
		}
		for k, s := range syms {
			ids[s] = uint64(10 + k)
		}
	}
	declare(0)
	e := &Encoder{Ch: ch, SID: func(t string) uint64 {
		id, ok := ids[t]
		if !ok {
			panic("refbin: symbol not in table: " + t)
		}
		return id
	}}
	out := append([]byte{}, BVM...)
	emitLST := func(appendForm bool) {
		if len(syms) > 0 {
			out = append(out, e.Value(LSTValue(syms, appendForm))...)
		}
	}
	emitLST(false)
	for i, v := range vals {
		out = append(out, e.TopNop()...)
		if i > 0 {
			// a repeated version marker resets the table, so the symbols still needed are declared
			// again: either as a plain table or as one that "appends" to the (now empty) system context
			switch ch.Dev("bvm.repeat", 3) {
			case 1:
				out = append(out, BVM...)
				declare(i)
				emitLST(false)
			case 2:
				out = append(out, BVM...)
				declare(i)
				emitLST(true)
			}
		}
		out = append(out, e.Value(v)...)
	}
	out = append(out, e.TopNop()...)
	return out
}
