package checks

import (
	"bytes"
	"fmt"
	"math/big"
	"os"
	"os/exec"
	"runtime"
	"runtime/metrics"
	"time"

	"github.com/amzn/ion-go/ion"

	"verif/internal/drive"
	"verif/internal/mc"
	"verif/internal/refbin"
	rm "verif/internal/refmodel"
	"verif/internal/reftext"
)

// C06 — no input can crash, hang or exhaust memory in a Reader, Decoder or Unmarshal.

var c06TextAlpha = []byte("a01_-+.edT:'\"\\/*{}[](), \n\r$nxbZ=\x80\x00")

// tag alphabet for 3-byte binary strings
var c06TagAlpha = func() []byte {
	var out []byte
	for t := 0; t < 16; t++ {
		out = append(out, byte(t<<4), byte(t<<4|1), byte(t<<4|0xE))
	}
	return out
}()

func allocBytes() uint64 {
	s := []metrics.Sample{{Name: "/gc/heap/allocs:bytes"}}
	metrics.Read(s)
	return s[0].Value.Uint64()
}

// touchAll calls every accessor on the current value (right- and wrong-typed alike).
func touchAll(r ion.Reader) {
	r.Type()
	r.IsNull()
	r.Annotations()
	r.FieldName()
	r.IsInStruct()
	r.BoolValue()
	r.IntSize()
	r.IntValue()
	r.Int64Value()
	r.BigIntValue()
	r.FloatValue()
	r.DecimalValue()
	r.TimestampValue()
	r.StringValue()
	r.SymbolValue()
	r.ByteValue()
	r.SymbolTable()
	r.Err()
}

type c06Target struct {
	name string
	mk   func() interface{}
}

type c06Struct struct {
	A int               `ion:"a"`
	B string            `ion:"b"`
	C []int             `ion:"c"`
	D map[string]string `ion:"d"`
	E *float64          `ion:"e"`
}

type c06Annot struct {
	Value interface{}
	Ann   []ion.SymbolToken `ion:",annotations"`
}

var c06Targets = []c06Target{
	{"int", func() interface{} { return new(int) }},
	{"int8", func() interface{} { return new(int8) }},
	{"uint16", func() interface{} { return new(uint16) }},
	{"float32", func() interface{} { return new(float32) }},
	{"string", func() interface{} { return new(string) }},
	{"[]byte", func() interface{} { return new([]byte) }},
	{"[2]int", func() interface{} { return new([2]int) }},
	{"[]interface{}", func() interface{} { return new([]interface{}) }},
	{"map", func() interface{} { return new(map[string]interface{}) }},
	{"struct", func() interface{} { return new(c06Struct) }},
	{"*bool", func() interface{} { return new(*bool) }},
	{"Timestamp", func() interface{} { return new(ion.Timestamp) }},
	{"Decimal", func() interface{} { return new(ion.Decimal) }},
	{"*Decimal", func() interface{} { return new(*ion.Decimal) }},
	{"big.Int", func() interface{} { return new(big.Int) }},
	{"SymbolToken", func() interface{} { return new(ion.SymbolToken) }},
	{"annot-struct", func() interface{} { return new(c06Annot) }},
	{"interface{}", func() interface{} { return new(interface{}) }},
	// named (defined) types: reflect's assignability differs from the underlying kinds
	{"map[named string]int", func() interface{} { return new(map[c06Key]int) }},
	{"map[string]named", func() interface{} { return new(map[string]c06Int) }},
	{"named []named", func() interface{} { return new(c06Ints) }},
	{"named []byte", func() interface{} { return new(c06Bytes) }},
	{"struct of named", func() interface{} { return new(c06Named) }},
	{"[4]named byte", func() interface{} { return new([4]c06Byte) }},
	{"[]named byte", func() interface{} { return new([]c06Byte) }},
	{"annot-struct of [2]named byte", func() interface{} { return new(c06AnnotBytes) }},
}

type c06Byte uint8
type c06AnnotBytes struct {
	A [2]c06Byte
	B []ion.SymbolToken `ion:",annotations"`
}
type c06Key string
type c06Int int16
type c06Ints []c06Int
type c06Bytes []byte
type c06Named struct {
	A c06Int            `ion:"a"`
	B c06Key            `ion:"b"`
	C c06Ints           `ion:"c"`
	D map[c06Key]c06Key `ion:"d"`
	E c06Bytes          `ion:"e"`
}

var c06Drivers = []string{"traverse-all-accessors", "next-only", "stepin-stepout", "decoder-loop", "unmarshal-interface", "unmarshal-typed"}

// c06Drive runs one fixed driver; budget is the deterministic hang guard.
func c06Drive(driver int, data []byte, target int, withCat bool) (calls int, hang string) {
	budget := 16*len(data) + 64
	newReader := func() ion.Reader {
		if withCat {
			return ion.NewReaderCat(bytes.NewReader(data), ion.NewCatalog(c06CatTables()...))
		}
		return ion.NewReaderBytes(data)
	}
	var ssts []ion.SharedSymbolTable
	if withCat {
		ssts = c06CatTables()
	}
	switch driver {
	case 0:
		r := newReader()
		depth := 0
		for calls < budget {
			calls++
			if r.Next() {
				touchAll(r)
				if ion.IsContainer(r.Type()) && !r.IsNull() {
					if r.StepIn() == nil {
						depth++
					}
				}
				continue
			}
			if depth == 0 {
				return calls, ""
			}
			if r.StepOut() != nil {
				return calls, ""
			}
			depth--
		}
		return calls, fmt.Sprintf("more than %d Next calls on %d input bytes", budget, len(data))
	case 1:
		r := newReader()
		for calls < budget {
			calls++
			if !r.Next() {
				return calls, ""
			}
		}
		return calls, fmt.Sprintf("more than %d top-level values from %d input bytes", budget, len(data))
	case 2:
		r := newReader()
		for calls < budget {
			calls++
			if !r.Next() {
				return calls, ""
			}
			if r.StepIn() == nil {
				r.StepOut()
				r.StepOut() // one refused call as well
			}
			r.StepIn()
		}
		return calls, fmt.Sprintf("more than %d values from %d input bytes", budget, len(data))
	case 3:
		d := ion.NewDecoder(newReader())
		for calls < budget {
			calls++
			if _, err := d.Decode(); err != nil {
				return calls, ""
			}
		}
		return calls, fmt.Sprintf("Decoder yielded more than %d values from %d input bytes", budget, len(data))
	case 4:
		var v interface{}
		ion.Unmarshal(data, &v, ssts...)
		return 1, ""
	default:
		ion.Unmarshal(data, c06Targets[target].mk(), ssts...)
		return 1, ""
	}
}

// c06CatTables: shared tables the hostile and seed documents import by name, each SHORTER than
// the max_id those documents declare (so imports are padded) or longer (so they are truncated).
func c06CatTables() []ion.SharedSymbolTable {
	return []ion.SharedSymbolTable{
		ion.NewSharedSymbolTable("t", 1, []string{"p", "q"}),
		ion.NewSharedSymbolTable("t", 3, []string{"p", "q", "r", "s", "t"}),
		ion.NewSharedSymbolTable("sh", 2, []string{"x"}),
		ion.NewSharedSymbolTable("", 1, []string{"e"}),
		ion.NewSharedSymbolTable("$ion", 2, []string{"bogus"}),
	}
}

// hostile symbol tables: every slot x every odd value
func c06HostileValues() []*rm.Value {
	vals := []*rm.Value{rm.IntV(-1), rm.BigV(new(big.Int).Lsh(big.NewInt(1), 70)), rm.IntV(1 << 40), rm.StrV(""), rm.StrV("$ion"), rm.SymV("x"), rm.FloatV(1), rm.ListV(), rm.StructV(), rm.BoolV(true), rm.ListV(rm.NullOf(rm.Null))}
	for t := rm.Null; t <= rm.Struct; t++ {
		vals = append(vals, rm.NullOf(t))
	}
	return vals
}

var c06Hostile = c06HostileValues()

var c06Slots = []string{"symbols", "symbols[i]", "imports", "imports[i]", "import.name", "import.version", "import.max_id", "dup-symbols", "dup-imports", "unknown-field", "annot-on-slot"}

func c06HostileLST(slot int, v *rm.Value) []*rm.Value {
	imp := rm.StructV(rm.StrV("t").F("name"), rm.IntV(1).F("version"), rm.IntV(3).F("max_id"))
	imports := rm.ListV(imp)
	symbols := rm.ListV(rm.StrV("a"), rm.StrV("b"))
	lst := rm.StructV().A("$ion_symbol_table")
	switch c06Slots[slot] {
	case "symbols":
		symbols = v
	case "symbols[i]":
		symbols = rm.ListV(rm.StrV("a"), v, rm.StrV("b"))
	case "imports":
		imports = v
	case "imports[i]":
		imports = rm.ListV(v, imp)
	case "import.name":
		imports = rm.ListV(rm.StructV(v.F("name"), rm.IntV(1).F("version"), rm.IntV(3).F("max_id")))
	case "import.version":
		imports = rm.ListV(rm.StructV(rm.StrV("t").F("name"), v.F("version"), rm.IntV(3).F("max_id")))
	case "import.max_id":
		imports = rm.ListV(rm.StructV(rm.StrV("t").F("name"), rm.IntV(1).F("version"), v.F("max_id")))
	case "dup-symbols":
		lst.Kids = append(lst.Kids, v.F("symbols"))
	case "dup-imports":
		lst.Kids = append(lst.Kids, v.F("imports"))
	case "unknown-field":
		lst.Kids = append(lst.Kids, v.F("zzz"), v.FS(rm.NoText(0)))
	case "annot-on-slot":
		symbols = symbols.A("q")
		imports = v.A("$ion_symbol_table")
	}
	lst.Kids = append(lst.Kids, imports.F("imports"), symbols.F("symbols"))
	user := rm.StructV(rm.SymTok(rm.NoText(10)).FS(rm.NoText(11))).AS(rm.NoText(12))
	return []*rm.Value{lst, user, rm.SymTok(rm.NoText(13)), rm.SymTok(rm.NoText(14))}
}

// extreme declared sizes
var c06Sizes = func() []uint64 {
	out := []uint64{127, 128, 16383, 16384, 1 << 20, 1<<21 - 1, 1 << 30, 1<<32 - 1, 1 << 32, 1 << 33, 200000000000000, 1<<63 - 1, 1 << 63, 1<<63 + 1}
	// every length in the last 48 below 2^64: position + length wraps around for these
	for k := uint64(48); k >= 1; k-- {
		out = append(out, -k)
	}
	return out
}()

func c06Extreme(c *mc.Ctx) ([]byte, string) {
	kind := c.Pick("extreme", 8)
	switch kind {
	case 0: // every type code with L=14 and a huge VarUInt length
		t := byte(c.Shard("type", 15))
		n := c06Sizes[c.Pick("size", len(c06Sizes))]
		nested := c.Pick("nested", 3)
		body := append([]byte{t<<4 | 0xE}, varUint64(n)...)
		body = append(body, 0x80, 0x81, 0x01, 0x02)
		switch nested {
		case 1:
			body = append([]byte{0xBE, 0x90}, body...)
		case 2:
			body = append([]byte{0xDE, 0x91, 0x84}, body...)
		}
		return append(append([]byte{}, refbin.BVM...), body...), fmt.Sprintf("type %x declared length %d nested=%d", t, n, nested)
	case 7: // a child whose declared length runs from well inside to a few bytes beyond its parent's end,
		// for every way of writing a length (inline, L=14 + VarUInt, the sorted-struct D1 form, padded VarUInt)
		p := 2 + c.Shard("parent-len", 10)
		child := c.Pick("child-form", 8)
		x := c.Pick("child-len", 16)
		parent := []byte{0xB0, 0xC0, 0xD0}[c.Pick("parent-kind", 3)]
		var ch []byte
		switch child {
		case 0:
			ch = []byte{0xD1, 0x80 | byte(x)}
		case 1:
			ch = []byte{0xD1, 0x00, 0x80 | byte(x)}
		case 2:
			ch = []byte{0xDE, 0x80 | byte(x)}
		case 3:
			ch = []byte{0xBE, 0x80 | byte(x)}
		case 4:
			ch = []byte{0x2E, 0x80 | byte(x)}
		case 5:
			ch = []byte{0x8E, 0x00, 0x80 | byte(x)}
		case 6:
			ch = []byte{0xB0 | byte(x%14)}
		default:
			ch = []byte{0xEE, 0x80 | byte(x), 0x81, 0x84}
		}
		body := append([]byte{}, ch...)
		for len(body) < 24 {
			body = append(body, 0x84, 0x20) // reads as field+int in a struct, as two small values elsewhere
		}
		if parent == 0xD0 {
			body = append([]byte{0x84}, body...)
		}
		w := append([]byte{parent | byte(p)}, body...)
		return append(append([]byte{}, refbin.BVM...), w...), fmt.Sprintf("child form %d declaring %d bytes inside a parent of %d", child, x, p)
	case 6: // annotation wrappers whose three lengths (wrapper, annotation list, wrapped value) disagree,
		// including the wrapped length that balances the books modulo 2^64
		wl := uint64(c.Shard("wrapper-len", 15)) // 14 = VarUInt form
		al := uint64(c.Pick("annot-len", 13))
		nsid := c.Pick("sid-bytes", 12)
		inner := c.Pick("inner", 6)
		ctx := c.Pick("context", 3)
		var w []byte
		if wl == 14 {
			wl = uint64(1 + nsid + 11)
			w = append([]byte{0xEE}, varUint64(wl)...)
		} else {
			w = []byte{0xE0 | byte(wl)}
		}
		w = append(w, varUint64(al)...)
		for i := 0; i < nsid; i++ {
			w = append(w, 0x84)
		}
		switch inner {
		case 0:
			w = append(w, 0x20)
		case 1:
			w = append(w, 0x21, 0x01)
		case 2: // wrapped length = what is "left" of the wrapper, computed with wrap-around
			w = append(append(w, 0x2E), varUint64(wl-1-al-11)...)
		case 3:
			w = append(append(w, 0x2E), varUint64(wl-uint64(nsid)-1-11)...)
		case 4:
			w = append(append(w, 0xBE), varUint64(wl-1-al-11)...)
		case 5:
			w = append(append(w, 0x8E), varUint64(-uint64(nsid)-12)...)
		}
		w = append(w, 0x20, 0x20)
		switch ctx {
		case 1:
			w = append([]byte{0xB0 | byte(min(13, len(w)-2))}, w...)
		case 2:
			w = append([]byte{0xD0 | byte(min(13, len(w)-1)), 0x84}, w...)
		}
		return append(append([]byte{}, refbin.BVM...), w...), fmt.Sprintf("annotation wrapper len=%d annot_length=%d sid-bytes=%d inner=%d context=%d", wl, al, nsid, inner, ctx)
	case 1: // VarUInt that never terminates / overflows
		n := c.Shard("len", 14)
		body := []byte{0x8E}
		for i := 0; i < n; i++ {
			body = append(body, 0x7F)
		}
		if c.Pick("terminated", 2) == 1 {
			body = append(body, 0xFF)
		}
		return append(append([]byte{}, refbin.BVM...), body...), fmt.Sprintf("%d-byte VarUInt length", n)
	case 2: // decimal / timestamp exponents and coefficients at extremes
		exps := []int64{1 << 31, -(1 << 31) - 1, 1<<31 - 1, -(1 << 31), 1 << 40, 1<<62 - 1, -(1 << 62)}
		e := exps[c.Shard("exp", len(exps))]
		coefLen := []int{0, 1, 8, 9, 64}[c.Pick("coef", 5)]
		d := refbin.VarInt(e, false, 0)
		for i := 0; i < coefLen; i++ {
			d = append(d, 0x7F)
		}
		var body []byte
		if c.Pick("as-timestamp-fraction", 2) == 1 {
			ts := append([]byte{0x80, 0x0F, 0xD0, 0x81, 0x81, 0x80, 0x80, 0x80}, d...)
			body = append([]byte{0x6E}, refbin.VarUint(uint64(len(ts)), 0)...)
			body = append(body, ts...)
		} else {
			body = append([]byte{0x5E}, refbin.VarUint(uint64(len(d)), 0)...)
			body = append(body, d...)
		}
		return append(append([]byte{}, refbin.BVM...), body...), fmt.Sprintf("exponent %d coefficient bytes %d", e, coefLen)
	case 3: // huge symbol IDs, max_ids and versions
		ids := []string{"9223372036854775807", "9223372036854775808", "18446744073709551615", "18446744073709551616", "4294967296", "2147483648", "99999999999999999999999"}
		id := ids[c.Shard("id", len(ids))]
		forms := []string{
			"$ion_symbol_table::{imports:[{name:\"t\",version:1,max_id:%s}],symbols:[\"a\"]} $10 $11 a",
			"$ion_symbol_table::{imports:[{name:\"t\",version:%s,max_id:2}]} $10",
			"$%s", "a::$%s", "{$%s:1}", "$%s::1",
			"$ion_symbol_table::{symbols:[\"a\"]} $ion_symbol_table::{imports:$ion_symbol_table,symbols:[\"b\"]} $%s",
		}
		f := forms[c.Pick("form", len(forms))]
		return []byte(fmt.Sprintf(f, id)), "huge id " + id
	case 4: // text numbers with extreme exponents and lengths
		texts := []string{"1d2147483648", "1d-2147483649", "1d99999999999999999999", "1e999999", "1e-999999", "1e99999999999999999999", "0d0_0", "1.d", "-", "-_", "0x", "0b", "1e", "1d+", "1d-",
			"2000-01-01T00:00:00.00000000000000000000000000000000000000001Z", "9999-12-31T23:59:59.9999999999Z", "0001-01-01T00:00:00.0000000000+23:59", "0001-01-01T00:00-23:59", "9999-12-31T23:59+23:59",
			"9999-12-31T23:59:60Z", "99999-01-01", "2000-01-01T00:00:00.Z", "2000-01-01T1:00Z", "2000-01-01T00:00+1:00"}
		i := c.Shard("text", len(texts))
		ctx := c.Pick("context", 3)
		t := texts[i]
		switch ctx {
		case 1:
			t = "[" + t + "]"
		case 2:
			t = "{a:b::" + t + "}"
		}
		return []byte(t), "extreme text"
	default: // deep nesting
		n := []int{10, 100, 1000, 5000}[c.Shard("depth", 4)]
		var b bytes.Buffer
		switch c.Pick("bracket", 4) {
		case 0:
			for i := 0; i < n; i++ {
				b.WriteByte('[')
			}
		case 1:
			for i := 0; i < n; i++ {
				b.WriteString("{a:")
			}
		case 2:
			for i := 0; i < n; i++ {
				b.WriteString("a::")
			}
			b.WriteString("1")
		default:
			b.Write(refbin.BVM)
			// nested lists with correct lengths, innermost first
			inner := []byte{0x20}
			for i := 0; i < n && len(inner) < 60000; i++ {
				hdr := []byte{0xBE}
				hdr = append(hdr, refbin.VarUint(uint64(len(inner)), 0)...)
				inner = append(hdr, inner...)
			}
			b.Write(inner)
		}
		return b.Bytes(), fmt.Sprintf("nesting depth %d", n)
	}
}

func varUint64(v uint64) []byte {
	var tmp [10]byte
	i := len(tmp) - 1
	tmp[i] = byte(v&0x7F) | 0x80
	v >>= 7
	for v > 0 {
		i--
		tmp[i] = byte(v & 0x7F)
		v >>= 7
	}
	return append([]byte{}, tmp[i:]...)
}

// C06Probe runs one driver over n repetitions of an opening bracket and reports how it ended.
func C06Probe(driver int, bracket string, n int) int {
	data := bytes.Repeat([]byte(bracket), n)
	calls, hang := c06Drive(driver, data, 0, false)
	fmt.Printf("probe done calls=%d hang=%q\n", calls, hang)
	return 0
}

var c06DeepBrackets = []string{"[", "(", "{a:"}
var c06DeepDrivers = []int{1, 3, 4} // next-only (skips), decoder-loop, unmarshal-interface

// c06Deep: nesting far beyond what a thread of the exploration could survive, so each case runs
// in a process of its own: the input is n opening brackets (1, 5 and 9 million).
func c06Deep(c *mc.Ctx) {
	// one shard per probe (they run side by side); the quick tier uses '[' only
	nb := 1
	if c.Tier == "thorough" {
		nb = len(c06DeepBrackets)
	}
	k := c.Shard("probe", nb*9)
	br := c06DeepBrackets[k/9]
	n := []int{5000000, 9000000, 1000000}[k%9/3]
	driver := c06DeepDrivers[k%3]
	if c.Tier != "thorough" && !(n == 5000000 || (n == 9000000 && driver == 1)) {
		c.Skip("the quick tier probes 5 million under each driver and 9 million under the skipping driver")
		return
	}
	c.Case(func() string {
		return fmt.Sprintf("deep nesting: %d x %q (%d bytes), driver=%s, in its own process", n, br, n*len(br), c06Drivers[driver])
	})
	c.Class("deep/" + c06Drivers[driver])
	c.Costly()
	cmd := exec.Command(os.Args[0], "c06probe", fmt.Sprint(driver), br, fmt.Sprint(n))
	cmd.Env = append(os.Environ(), "GOMAXPROCS=2", "GOGC=off") // no collector: scanning a gigabyte of stack over and over is what makes these probes slow
	out, err := cmd.CombinedOutput()
	c.Step(1)
	switch {
	case err == nil && bytes.Contains(out, []byte("probe done")):
		c.Observe(br, n, driver, "ok")
		c.Nontrivial()
	case bytes.Contains(out, []byte("stack overflow")):
		c.Fail("fatal", "stack overflow:"+c06Drivers[driver], "the process died with 'fatal error: stack overflow' (unbounded recursion on nesting depth): %s", clipStr(string(out), 300))
	case bytes.Contains(out, []byte("out of memory")):
		c.Fail("fatal", "out of memory:"+c06Drivers[driver], "the process died out of memory: %s", clipStr(string(out), 300))
	default:
		c.Fail("fatal", "died:"+c06Drivers[driver], "the process ended abnormally (%v): %s", err, clipStr(string(out), 400))
	}
}

func c06Body(c *mc.Ctx) {
	var data []byte
	var what string
	thorough := c.Tier == "thorough"
	hostile := false
	// (the deep-nesting probes are the LAST family on purpose: the shrinker lowers choice values, and
	// a probe costs seconds; as family 0 every shrink attempt of every other failure would run one)
	switch c.Pick("family", 6) {
	case 5:
		c06Deep(c)
		return
	case 0: // (a) all short binary strings after the version marker
		n := c.Pick("len", 4)
		body := make([]byte, n)
		for i := 0; i < n; i++ {
			if n == 3 && !thorough {
				if i == 0 {
					body[i] = c06TagAlpha[c.Shard("tag", len(c06TagAlpha))]
				} else {
					body[i] = c06TagAlpha[c.Pick("tag", len(c06TagAlpha))]
				}
			} else if i == 0 {
				body[i] = byte(c.Shard("byte", 256))
			} else {
				body[i] = byte(c.Pick("byte", 256))
			}
		}
		data = append(append([]byte{}, refbin.BVM...), body...)
		what = "short binary"
	case 1: // (a) all short text strings over the grammar alphabet
		maxN := 3
		if thorough {
			maxN = 4
		}
		n := c.Pick("len", maxN+1)
		body := make([]byte, n)
		for i := 0; i < n; i++ {
			if i == 0 {
				body[i] = c06TextAlpha[c.Shard("char", len(c06TextAlpha))]
			} else {
				body[i] = c06TextAlpha[c.Pick("char", len(c06TextAlpha))]
			}
		}
		data = body
		what = "short text"
	case 2: // (b) hostile symbol tables, both formats
		hostile = true
		slot := c.Shard("slot", len(c06Slots))
		v := c06Hostile[c.Pick("value", len(c06Hostile))]
		vals := c06HostileLST(slot, v)
		if c.Pick("format", 2) == 1 {
			ids := map[string]uint64{"zzz": 10, "q": 11}
			for i, s := range refbin.SystemSymbols {
				ids[s] = uint64(i + 1)
			}
			e := &refbin.Encoder{Ch: rm.Canon{}, SID: func(t string) uint64 { return ids[t] }}
			data = append([]byte{}, refbin.BVM...)
			for _, x := range vals {
				data = append(data, e.Value(x)...)
			}
		} else {
			data = reftext.Print(rm.Canon{}, vals)
		}
		what = "hostile symbol table: " + c06Slots[slot]
	case 3: // (c) extreme declared sizes
		data, what = c06Extreme(c)
	default: // (d) every single-byte substitution (all 256 values) of seed documents
		docs := c07Docs
		d := docs[c.Shard("doc", len(docs))]
		if !allRepresentable(d.vals) {
			c.Skip("not representable")
			return
		}
		var src []byte
		if c.Pick("format", 2) == 1 {
			src = refbin.EncodeStream(rm.Canon{}, d.vals)
		} else {
			src = reftext.Print(rm.Canon{}, d.vals)
		}
		if len(src) == 0 || len(src) > 120 && !thorough {
			c.Skip("seed too long for the quick tier")
			return
		}
		pos := c.Pick("pos", len(src))
		step := 1
		if !thorough {
			step = 5 // 52 values per position in the quick tier, all 256 in thorough
		}
		nb := byte(c.Pick("value", (256+step-1)/step) * step)
		data = append([]byte{}, src...)
		data[pos] = nb + byte(pos%step)
		what = "byte substitution"
	}
	driver := c.Pick("driver", len(c06Drivers))
	target := 0
	if driver == 5 {
		target = c.Pick("target", len(c06Targets))
	}
	// hostile tables and seeds are also read with a catalog whose tables have other sizes than declared
	withCat := hostile && c.Pick("catalog", 2) == 1
	c.Case(func() string {
		t := ""
		if driver == 5 {
			t = " into " + c06Targets[target].name
		}
		if withCat {
			t += " with a catalog"
		}
		if len(data) >= 4 && data[0] == 0xE0 {
			return fmt.Sprintf("%s: driver=%s%s input=%x", what, c06Drivers[driver], t, clipBytes(data, 64))
		}
		return fmt.Sprintf("%s: driver=%s%s input=%q", what, c06Drivers[driver], t, clipBytes(data, 100))
	})
	c.Class(what + "/" + c06Drivers[driver])
	c.Announce()
	before := allocBytes()
	start := time.Now()
	var calls int
	var hang string
	pan := drive.Safe(func() { calls, hang = c06Drive(driver, data, target, withCat) })
	grown := allocBytes() - before
	c.Step(calls)
	if pan != "" {
		c.Fail("panic", drive.PanicSite(pan), "%s", pan)
		return
	}
	if hang != "" {
		c.Fail("hang", c06Drivers[driver], "%s", hang)
		return
	}
	limit := uint64(1<<20 + 4096*len(data))
	if grown > limit {
		// the runtime publishes allocation statistics in batches, so a single reading can include
		// earlier allocations; a real over-allocation repeats, so re-measure after a GC and keep the minimum
		for i := 0; i < 3 && grown > limit; i++ {
			runtime.GC()
			b := allocBytes()
			drive.Safe(func() { c06Drive(driver, data, target, withCat) })
			if g := allocBytes() - b; g < grown {
				grown = g
			}
		}
	}
	if grown > limit {
		c.Fail("alloc", c06Drivers[driver], "allocated %d bytes for a %d-byte input (limit %d)", grown, len(data), limit)
		return
	}
	if el := time.Since(start); el > 5*time.Second {
		// not an oracle (no wall-clock verdicts): recorded so that a slow case is visible in the evidence
		c.Observe("slow")
	}
	c.Observe(calls > 2)
	c.Nontrivial()
}

func init() {
	mc.Register(&mc.Check{
		ID:    "C06",
		Title: "No input can crash, hang or exhaust memory in a Reader, Decoder or Unmarshal",
		Rule: "inputs, all enumerated exhaustively: (a) the version marker followed by EVERY byte string of length <=2 and every length-3 string over a 48-tag alphabet (thorough: all 2^24), and EVERY text string of length <=3 (thorough 4) over a 37-character alphabet of grammar-significant bytes; (b) hostile symbol tables: 11 slots (symbols, symbols[i], imports, imports[i], name, version, max_id, duplicated fields, unknown fields, annotated slots) x 24 odd values (every typed null, wrong-typed scalars, negative/huge integers) in text and binary, followed by values using the affected IDs, each read without and with a catalog whose tables of those names are shorter or longer than the declared max_id; " +
			"(c) extreme declared sizes: every type code with L=14 and VarUInt lengths up to 2^63+1 plus EVERY length in the last 48 below 2^64 (position+length wraps) at top level and nested, annotation wrappers whose wrapper length (0..13, VarUInt), annotation-list length (0..12), number of SID bytes present (0..11) and wrapped value disagree in every combination incl. wrapped lengths that balance modulo 2^64, at top level / in a list / in a struct, a child written in each of 8 length forms declaring 0..15 bytes inside a list / sexp / struct of 2..11 bytes (from well inside to beyond the parent's end), unterminated/overlong VarUInts, decimal and timestamp-fraction exponents and coefficients at int32/int64 boundaries, symbol IDs / max_id / version beyond int64, text exponents beyond int32, nesting to depth 5000; (d) every position of every seed document x byte substitutions (52 values quick, all 256 thorough) in both formats; (e) 1, 5 and 9 million opening brackets ([ ( {a:) under the skipping, Decoder and Unmarshal drivers, each in a process of its own (quick tier: 5 million [ under each driver and 9 million under the skipping one). " +
			"Each input under six drivers (full traversal calling ALL 18 accessors on every value, Next only, StepIn/StepOut/refused StepOut, Decoder.Decode loop, Unmarshal into interface{}, Unmarshal into each of 26 typed targets incl. named key/element/slice/byte types). Oracle: no panic (recovered and attributed), no worker death (case announced beforehand), at most 16*len+64 calls per driver (deterministic hang guard), heap allocation <= 1 MiB + 4 KiB per input byte. " +
			"non-trivial = driver ran to completion under all guards; distinct = distinct (family, driver, progress) digests",
		Bounds:       map[string]string{"quick": "binary len<=2 + 48^3; text len<=3; substitutions on seeds <=120 bytes, 52 values", "thorough": "binary len<=3 all bytes; text len<=4; all seeds, all 256 values"},
		Assumptions:  []string{"allocation is measured with runtime/metrics /gc/heap/allocs:bytes around the ion-go calls (includes the drivers' own small allocations)", "wall-clock time is never an oracle; a worker that stops making progress is killed by the parent and reported as a hang of the announced case"},
		Body:         c06Body,
		Tiers:        map[string]mc.Tier{"quick": {}, "thorough": {}},
		WorkerMemMB:  3000,
		WorkerVMemKB: 16 << 20,
		HangSec:      120,
	})
}
