package checks

import (
	"bytes"
	"fmt"
	"math/big"
	"strings"

	"github.com/amzn/ion-go/ion"

	"verif/internal/drive"
	"verif/internal/mc"
	"verif/internal/refbin"
	rm "verif/internal/refmodel"
	"verif/internal/refsym"
	"verif/internal/reftext"
)

// C07 — malformed input ends in an error, and the error is permanent.

// hand-written catalogue of spec-invalidating inputs (text)
var c07Text = []string{
	`"abc`, `'abc`, `'''abc`, `'''abc''`, `/* abc`, `[1, 2`, `(1 2`, `{a:1`, `{{ aGVsbG8=`, `{{ "abc" `, `{{ "abc" }`,
	`"a\qb"`, `"\x1"`, `"\u12"`, `"\U0011FFFF"`, `'a\qb'`, `{{"A"}}`, `{{"\U00000041"}}`, "\"a\nb\"", "'a\nb'", "\"\xff\xfe\"", "'\xff'", "{{\"\xc3\xa9\"}}",
	`1__0`, `_1`, `1_`, `0x_1`, `1_.0`, `007`, `-007`, `0x`, `0b`, `0b2`, `1e`, `1d`, `1.2.3`, `+1`, `1e+`, `--1`, `0x1G`,
	`[,1]`, `[1,,2]`, `[,]`, `{a:1,,b:2}`, `{,a:1}`, `(1,2)`, `1,2`, `,`, `[1 2]`, `{a:1 b:2}`,
	`a::`, `[a::]`, `(a::)`, `{f:a::}`, `a::,`, `{a:}`, `{a}`, `{:1}`, `{a:1,b}`, `{1:2}`, `{a::b:1}`,
	`null::1`, `true::1`, `{null:1}`, `{true:1}`, `{nan:1}`, `null.foo`, `null.`, `null.int.x`,
	`+`, `[+]`, `{a:+}`, `+::1`,
	`{{ aGVsbG8 }}`, `{{ aGVsbG8== }}`, `{{ a=== }}`, `{{ =aGV }}`, `{{ aGVs!G8= }}`, `{{ /* c */ aGVsbG8= }}`, `{{ "a" "b" }}`, `{{ '''a''' "b" }}`,
	`2000-13-01`, `2000-00-01`, `2000-01-32`, `2000-02-30`, `2001-02-29`, `1900-02-29`, `2000-01-01T24:00Z`, `2000-01-01T00:60Z`, `2000-01-01T00:00:60Z`,
	`2000-01-01T00:00+24:00`, `2000-01-01T00:00-24:00`, `2000-01-01T00:00+00:60`, `2000-01-01T00:00`, `2000-01-01T00Z`, `2000-1-01`, `0000-01-01`, `2000-01-01T00:00:00.Z`, `2000-01-01t00:00Z`, `2000-01-01T00:00z`, `2000T00:00Z`,
	`]`, `}`, `)`, `[}`, `(]`, `{]`, `[1)`, `}}`,
	`$ion_symbol_table::{symbols:["a"]} $11`,
	"\x00", "\x01", "a\x00", "\"\x00\"", "\"\x1f\"", "'\x01'",
	`"\uD800"`, `"\uDC00"`, `"\uD800x"`, `"\uD800A"`,
	`'''a''' b '''c''' "`, `{a:1}}`, `[[1]`, `((1)`, `{a:{b:1}`,
	`1e1_0`, `1.0e-1_0`, `1d1_0`, `1d+1_0`, `1e1__0`, `1e10_`, `1e_10`, `1d-_1`, `1._5`, `1.5_`, `1.__5`,
	`(.::a)`, `(. ::a)`, `(a.::b)`, `(+::a)`, `.::a`, `{f:.::a}`,
	// grammar violations inside parts of a symbol table the caller's traversal cannot enter
	`$ion_symbol_table::{foo:[1,,2]} 1`, `$ion_symbol_table::{symbols:["a",[1 2]]} 1`, `$ion_symbol_table::{foo:[(])]} 1`, `$ion_symbol_table::{foo:{a:}} 1`,
	`$ion_symbol_table::{foo:[a::]} 1`, `$ion_symbol_table::{foo:[1__0]} 1`, `$ion_symbol_table::{foo:[00]} 1`, `$ion_symbol_table::{foo:[2001-02-30]} 1`,
	`$ion_symbol_table::{imports:[{name:"a",version:1,max_id:1,foo:(1,2)}]} 1`, `$ion_symbol_table::{symbols:["a"],foo:"\q"} 1`, `$ion_symbol_table::{imports:[{name:"a",version:1,max_id:1},[1 2]]} 1`,
	`1 /* x`, `1 /*/`, `nul`, `tru`, `fals`, `nana`, `1a`, `1.0a`, `2000-01-01a`, `truefalse`, `null.intx`, `true[`,
}

// escapes at their boundary values (valid and invalid alike: the reference parser judges each)
var c07Escapes = func() []string {
	out := []string{`\x`, `\x4`, `\xg1`, `\x4g`, `\u`, `\u004`, `\u00g1`, `\U`, `\U0000004`, `\U0000004g`, `\`, `\q`, `\8`, `\X41`, `\ `}
	for _, v := range []string{"00", "0a", "41", "7f", "80", "e9", "ff", "FF"} {
		out = append(out, `\x`+v)
	}
	for _, v := range []string{"0000", "0041", "00e9", "d7ff", "d800", "dbff", "dc00", "dfff", "e000", "fffe", "ffff", "D83D\\uDE00", "d83d\\u0041", "dc00\\ud83d"} {
		out = append(out, `\u`+v)
	}
	for _, v := range []string{"00000000", "00000041", "0000d800", "0000dfff", "0001f600", "0010ffff", "00110000", "0fffffff", "7fffffff", "80000000", "80000041", "8000004a", "90000041", "fffffffe", "ffffffff", "FFFFFFFF"} {
		out = append(out, `\U`+v)
	}
	return out
}()

var c07EscapeContexts = []string{`"@"`, `'@'`, `'''@'''`, `{{"@"}}`, `{{'''@'''}}`, `{'@':1}`, `{"@":1}`, `'@'::1`, `["a@b", 2]`, `('a@')`}

// hand-written catalogue (binary bodies after the version marker)
var c07Binary = [][]byte{
	{0x12}, {0x13}, {0x1E, 0x80}, {0x30}, {0x31, 0x00}, {0x32, 0x00, 0x00}, {0x41, 0x00}, {0x42, 0x00, 0x00}, {0x43, 0, 0, 0}, {0x45, 0, 0, 0, 0, 0}, {0x49, 0, 0, 0, 0, 0, 0, 0, 0, 0},
	{0xF0}, {0xF1, 0x00}, {0xFF}, {0xEF}, {0xE0}, {0xE0, 0x01}, {0xE0, 0x02, 0x00, 0xEA}, {0xE0, 0x01, 0x00, 0xEB}, {0xE1, 0x80}, {0xE2, 0x80, 0x20},
	{0xE3, 0x80, 0x20, 0x20}, {0xE3, 0x81, 0x84}, {0xE4, 0x81, 0x84, 0x00, 0x20}, {0xE6, 0x81, 0x84, 0xE3, 0x81, 0x84, 0x20}, {0xE4, 0x81, 0x84, 0x21, 0x01, 0x20}, {0xE4, 0x81, 0x84, 0x21},
	{0xE3, 0x81, 0x84, 0x01, 0xFF}, {0xE4, 0x82, 0x84, 0x20}, {0xD1, 0x80}, {0xD2, 0x84}, {0xD2, 0x84, 0x21}, {0xD3, 0x84, 0x21, 0x01, 0x84}, {0xB1}, {0xB2, 0x21}, {0xB2, 0x22, 0x01}, {0xC3, 0x21, 0x01},
	{0xB4, 0xE0, 0x01, 0x00, 0xEA}, {0x8E}, {0x8E, 0x00}, {0x8E, 0x00, 0x00}, {0x81}, {0x82, 0x61}, {0x82, 0xC3, 0x28}, {0x81, 0xFF}, {0x84, 0xF0, 0x90, 0x80}, {0x83, 0xED, 0xA0, 0x80},
	{0x21}, {0x22, 0x01}, {0x2E, 0x81}, {0x2E, 0x82, 0x01}, {0x71}, {0x72, 0x00}, {0x71, 0x0A}, {0x91}, {0xA2, 0x00},
	{0x61, 0x80}, {0x62, 0x80, 0x00}, {0x63, 0x80, 0x0F, 0xD0, 0x8D}, {0x64, 0x80, 0x0F, 0xD0, 0x81, 0xA0}, {0x64, 0x80, 0x0F, 0xD0, 0x82, 0x9E}, {0x65, 0x80, 0x0F, 0xD0, 0x81, 0x81, 0x80},
	{0x65, 0x80, 0x0F, 0xD0, 0x81, 0x81, 0x98}, {0x66, 0x80, 0x0F, 0xD0, 0x81, 0x81, 0x80, 0xBC}, {0x67, 0x80, 0x0F, 0xD0, 0x81, 0x81, 0x80, 0x80, 0xBC}, {0x64, 0x80, 0x0F, 0xD0, 0x80, 0x81}, {0x64, 0x80, 0x0F, 0xD0, 0x81, 0x80},
	{0x64, 0x80, 0x0F, 0xD1, 0x82, 0x9D}, {0x63, 0x80, 0x80, 0x81}, {0x53, 0x00, 0x00, 0x00}, {0x51, 0x00},
	{0x0E}, {0x0E, 0x85, 0x00}, {0x01}, {0xD3, 0x80, 0x01}, {0xB3, 0x01, 0x00},
	// inside a symbol table: an int overrunning a list in symbols; an invalid tag in open content; an overrun in the name field
	{0xE7, 0x81, 0x83, 0xD4, 0x87, 0xB2, 0xB1, 0x21, 0x20}, {0xE6, 0x81, 0x83, 0xD3, 0x89, 0xB1, 0xF0, 0x20}, {0xE6, 0x81, 0x83, 0xD3, 0x84, 0xC1, 0x31, 0x20},
	{0x39, 0, 0, 0, 0, 0, 0, 0, 0, 0}, {0x3D, 0, 0, 0, 0, 0, 0, 0, 0, 0, 0, 0, 0, 0},
	// ten-byte VarUInt / VarInt fields whose value does not fit 64 bits (2^64+3 as a length, 2^64+4 as a field
	// and as an annotation ID, +-(2^64+5) as a decimal exponent): they must not wrap around to small values
	{0x8E, 0x02, 0, 0, 0, 0, 0, 0, 0, 0, 0x83, 'a', 'b', 'c'}, {0x2E, 0x02, 0, 0, 0, 0, 0, 0, 0, 0, 0x81, 0x07},
	{0xDC, 0x02, 0, 0, 0, 0, 0, 0, 0, 0, 0x84, 0x20}, {0xEC, 0x8A, 0x02, 0, 0, 0, 0, 0, 0, 0, 0, 0x84, 0x20},
	{0x5B, 0x02, 0, 0, 0, 0, 0, 0, 0, 0, 0x85, 0x01}, {0x5B, 0x42, 0, 0, 0, 0, 0, 0, 0, 0, 0x82, 0x01},
	{0x8E, 0x01, 0x7F, 0x7F, 0x7F, 0x7F, 0x7F, 0x7F, 0x7F, 0x7F, 0xFF}, {0x8E, 0x04, 0, 0, 0, 0, 0, 0, 0, 0, 0x80},
}

func c07SeedDocs() []doc {
	var out []doc
	for _, r := range genReps {
		out = append(out, doc{"rep", []*rm.Value{r}})
		out = append(out, doc{"rep-ann-in-struct", []*rm.Value{rm.StructV(r.A("an").F("f"), rm.IntV(1).F("g")), rm.IntV(5)}})
		out = append(out, doc{"rep-in-list", []*rm.Value{rm.ListV(r, rm.SexpV(r)), rm.StrV("t")}})
	}
	for i, s := range genShapes3 {
		if i%2 == 0 {
			out = append(out, doc{"shape", []*rm.Value{s, rm.IntV(7)}})
		}
	}
	for _, t := range catTimestampsSome() {
		out = append(out, doc{"ts", []*rm.Value{rm.TSV(t), rm.IntV(1)}})
	}
	// a symbol table with open content and odd entries: the Reader consumes it itself, so every
	// edit inside it can only be noticed by the Reader
	lst := rm.StructV(
		rm.ListV(rm.IntV(1), rm.StructV(rm.SexpV(rm.SymV("b"), rm.FloatV(1.5)).F("a")), rm.StrV("q\n")).F("foo"),
		rm.ListV(rm.StructV(rm.StrV("sh").F("name"), rm.IntV(1).F("version"), rm.IntV(1).F("max_id"), rm.SexpV(rm.IntV(1), rm.IntV(2)).F("bar"))).F("imports"),
		rm.ListV(rm.StrV("s"), rm.ListV(rm.IntV(1), rm.DecV(bigOf(15), -1, false)), rm.StrV("t")).F("symbols"),
	).A("$ion_symbol_table")
	out = append(out, doc{"table-with-open-content", []*rm.Value{lst, rm.IntV(1)}})
	numbers := []*rm.Value{rm.FloatV(1e10), rm.FloatV(2.5e-12), rm.DecV(bigOf(15), 12, false), rm.DecV(bigOf(-7), -30, false)}
	out = append(out, doc{"exponents", numbers})
	return out
}

func catTimestampsSome() []rm.TS {
	return []rm.TS{
		{Year: 2000, Prec: rm.PYear}, {Year: 2000, Month: 2, Prec: rm.PMonth}, {Year: 2000, Month: 2, Day: 29, Prec: rm.PDay},
		{Year: 2000, Month: 12, Day: 31, Hour: 23, Minute: 59, Prec: rm.PMinute, OffsetKnown: true},
		{Year: 2000, Month: 12, Day: 31, Hour: 23, Minute: 59, Second: 59, Prec: rm.PSecond, OffsetKnown: true, OffsetMin: -330},
		{Year: 2001, Month: 1, Day: 1, Hour: 0, Minute: 0, Second: 0, Prec: rm.PSecond, FracDigits: 3, FracCoef: bigOf(123), OffsetKnown: false},
	}
}

var c07Docs = c07SeedDocs()

// textInserts are the characters tried at every position of a text document.
var c07TextInserts = []byte("\"',:{}[]()_.\\/*x0-+ \n\x00$")

// c07Traverse: full traversal, then the stickiness probe.
func c07Traverse(c *mc.Ctx, data []byte) (vals []*rm.Value, err error, sticky string, pan string) {
	pan = drive.Safe(func() {
		r := ion.NewReaderBytes(data)
		var calls int
		old := drive.MaxValuesPerLevel
		drive.MaxValuesPerLevel = len(data) + 2
		vals, calls, err = drive.ReadAll(r)
		drive.MaxValuesPerLevel = old
		c.Step(calls)
		if err == nil {
			return
		}
		e0 := r.Err()
		if e0 == nil {
			// the traversal failed in an accessor/StepIn/StepOut but the reader does not remember it
			sticky = fmt.Sprintf("traversal failed (%v) but Err() is nil", err)
			// step out as far as possible so that Next is asked at top level as well
		}
		for i := 0; i < 5; i++ {
			if r.Next() {
				sticky = fmt.Sprintf("Next returned true after the error %v", err)
				return
			}
			e := r.Err()
			if e0 != nil && e != e0 {
				sticky = fmt.Sprintf("Err() changed from %v to %v", e0, e)
				return
			}
		}
		c.Step(10)
	})
	return
}

func c07Body(c *mc.Ctx) {
	var data []byte
	var what string
	binary := false
	switch c.Pick("source", 6) {
	case 5: // values beyond 64 KiB (read in chunks) cut short at chosen offsets, at top level and in a list
		kind := c.Shard("large-kind", 4)
		n := []int{65536, 65537, 70000}[c.Pick("large-len", 3)]
		body := make([]byte, n)
		for i := range body {
			body[i] = 'a' + byte(i%23)
		}
		var v *rm.Value
		switch kind {
		case 0:
			v = rm.BlobV(body)
		case 1:
			v = rm.ClobV(body)
		case 2:
			v = rm.StrV(string(body))
		default:
			v = rm.BigV(new(big.Int).SetBytes(body))
		}
		vals := []*rm.Value{v}
		if c.Pick("in-list", 2) == 1 {
			vals = []*rm.Value{rm.ListV(v, rm.IntV(7))}
		}
		src := refbin.EncodeStream(rm.Canon{}, vals)
		offs := []int{5, 6, 9, 10, 100, 4096, 65535, 65536, 65537, 65540, 65545, n, len(src) - 2, len(src) - 1}
		at := offs[c.Pick("truncate-at", len(offs))]
		if at >= len(src) {
			c.Skip("offset beyond the document")
			return
		}
		binary = true
		data = src[:at]
		what = fmt.Sprintf("large value truncate@%d of %d", at, len(src))
	case 4: // every escape form at its boundary values in every context that takes escapes
		e := c07Escapes[c.Shard("escape", len(c07Escapes))]
		ctx := c07EscapeContexts[c.Pick("context", len(c07EscapeContexts))]
		data = []byte(strings.Replace(ctx, "@", e, 1))
		what = "escape"
	case 0: // hand catalogue, text
		i := c.Shard("text-case", len(c07Text))
		data = []byte(c07Text[i])
		if c.Pick("wrap", 2) == 1 {
			data = []byte("[" + c07Text[i] + "]")
		}
		what = "catalogue"
	case 1: // hand catalogue, binary
		i := c.Shard("bin-case", len(c07Binary))
		binary = true
		body := c07Binary[i]
		switch c.Pick("wrap", 3) {
		case 0:
			data = append(append([]byte{}, refbin.BVM...), body...)
		case 1: // inside a list whose length is right
			data = append(append([]byte{}, refbin.BVM...), 0xBE)
			data = append(data, refbin.VarUint(uint64(len(body)), 0)...)
			data = append(data, body...)
		default: // followed by another value
			data = append(append([]byte{}, refbin.BVM...), body...)
			data = append(data, 0x20)
		}
		what = "catalogue"
	case 2: // edits of valid text documents
		d := c07Docs[c.Shard("doc", len(c07Docs))]
		if !allRepresentable(d.vals) {
			c.Skip("not representable")
			return
		}
		src := reftext.Print(rm.Canon{}, d.vals)
		switch c.Pick("edit", 4) {
		case 0:
			n := c.Pick("truncate-at", len(src)+1)
			data = src[:n]
			what = fmt.Sprintf("truncate@%d", n)
		case 1:
			if len(src) == 0 {
				c.Skip("empty")
				return
			}
			n := c.Pick("delete-at", len(src))
			data = append(append([]byte{}, src[:n]...), src[n+1:]...)
			what = fmt.Sprintf("delete@%d", n)
		case 2:
			n := c.Pick("insert-at", len(src)+1)
			ch := c07TextInserts[c.Pick("char", len(c07TextInserts))]
			data = append(append(append([]byte{}, src[:n]...), ch), src[n:]...)
			what = fmt.Sprintf("insert %q@%d", ch, n)
		default:
			if len(src) == 0 {
				c.Skip("empty")
				return
			}
			n := c.Pick("dup-at", len(src))
			data = append(append(append([]byte{}, src[:n+1]...), src[n]), src[n+1:]...)
			what = fmt.Sprintf("dup@%d", n)
		}
	default: // edits of valid binary documents
		binary = true
		d := c07Docs[c.Shard("doc", len(c07Docs))]
		if !allRepresentable(d.vals) {
			c.Skip("not representable")
			return
		}
		src := refbin.EncodeStream(rm.Canon{}, d.vals)
		switch c.Pick("edit", 3) {
		case 0:
			n := c.Pick("truncate-at", len(src)-3) + 4
			data = src[:n]
			what = fmt.Sprintf("truncate@%d", n)
		case 1:
			n := c.Pick("byte-at", len(src)-4) + 4
			b := src[n]
			subs := []byte{b + 1, b - 1, b ^ 0x80, b ^ 0x0F, b ^ 0xF0, b&0xF0 | 0x0E, b&0xF0 | 0x0F, 0x00, 0xFF, b + 0x10, b - 0x10}
			nb := subs[c.Pick("sub", len(subs))]
			if nb == b {
				c.Skip("substitution is the identity")
				return
			}
			data = append([]byte{}, src...)
			data[n] = nb
			what = fmt.Sprintf("byte@%d %02x->%02x", n, b, nb)
		default:
			n := c.Pick("delete-at", len(src)-4) + 4
			data = append(append([]byte{}, src[:n]...), src[n+1:]...)
			what = fmt.Sprintf("delete@%d", n)
		}
	}
	c.Case(func() string {
		if binary {
			return fmt.Sprintf("binary %s: %x", what, clipBytes(data, 100))
		}
		return fmt.Sprintf("text %s: %q", what, clipBytes(data, 160))
	})
	c.Class(what)
	// the reference judges the edited document
	var raw []*rm.Value
	var rerr error
	if binary {
		raw, rerr = refbin.DecodeRaw(data)
	} else {
		if len(data) >= 4 && data[0] == 0xE0 && data[3] == 0xEA {
			c.Skip("text edit produced a binary-looking prefix")
			return
		}
		raw, rerr = reftext.Parse(data)
	}
	if rerr != nil && (refbin.IsUnsure(rerr) || strings.Contains(rerr.Error(), "symbol ID $")) {
		// constructs the specification leaves open (zero timestamp fraction with exponent >= 0; a $N whose N overflows)
		c.Skip("reference is unsure about this construct")
		return
	}
	if rerr == nil {
		// the edit happens to yield a valid document: hand it to the C02/C03-style comparison
		res, serr := refsym.Resolve(raw, nil)
		undefinedLocal := false
		if res != nil {
			for _, t := range res.Tables {
				for _, sl := range t.Symbols {
					if !sl.Defined || sl.Text == "" {
						undefinedLocal = true
					}
				}
			}
		}
		if serr != nil || res.Unsure || undefinedLocal || !allRepresentable(res.Values) {
			c.Skip("edit yields a grammatical document outside the comparison domain")
			return
		}
		got, _, gerr, pan := readBack(data, nil)
		if failPanic(c, pan) {
			return
		}
		if gerr != nil {
			c.Fail("unexpected-error", "valid-after-edit:"+errKey(gerr), "the edited document is valid (%s) but the reader rejects it: %v", rm.StreamString(res.Values), gerr)
			return
		}
		if df := rm.DiffStreams(res.Values, got); df != "" {
			c.Fail("value-mismatch", "valid-after-edit:"+diffKey(df), "the edited document denotes %s, reader returned %s: %s", rm.StreamString(res.Values), rm.StreamString(got), df)
			return
		}
		c.Observe("valid", len(got))
		return
	}
	vals, gerr, sticky, pan := c07Traverse(c, data)
	if failPanic(c, pan) {
		return
	}
	if gerr == nil {
		c.Fail("missing-error", "accepted", "the reference rejects this input (%v) but a full traversal ended with Err()==nil after %s", rerr, rm.StreamString(vals))
		return
	}
	if sticky != "" {
		c.Fail("not-sticky", "reader", "%s", sticky)
		return
	}
	c.Observe("rejected", len(vals))
	c.Nontrivial()
}

func init() {
	_ = bytes.Equal
	mc.Register(&mc.Check{
		ID:    "C07",
		Title: "Malformed input ends in an error, and the error is permanent",
		Rule: "(a) a hand catalogue of ~200 spec-invalid text inputs (unterminated strings/comments/containers/lobs, illegal escapes incl. unpaired surrogates, bad digit grouping, leading zeros, misplaced commas, dangling annotations and field names, keywords as names, operators outside sexps, bad base64, impossible calendar fields/offsets, control characters, junk after keywords, '_' in exponents, operators as annotations, grammar violations inside the ignored parts of a symbol table) bare and inside a list, and ~90 spec-invalid binary bodies (bool/float/negative-zero/reserved tags, annotation-wrapper shapes, sorted struct forms, overruns, non-UTF-8, impossible timestamps, unterminated VarUInts) at top level, inside a list and before another value; blobs, clobs, strings and integers of 65536 / 65537 / 70000 bytes (the binary reader reads these in chunks) cut short at 14 offsets, at top level and inside a list; " +
			"(b) every valid document of a seed corpus (token-class representatives bare / annotated in structs / nested, shapes, timestamps of each precision) in canonical text and binary x EVERY truncation offset, EVERY single-byte deletion and duplication, every insertion of 24 grammar-significant characters at every text position, and 11 byte substitutions at every binary position. " +
			"An edited input counts only if the independent reference parser/decoder rejects it; then a traversal that enters every container and reads every scalar must end with Err()!=nil, five further Next calls return false and Err() stays the identical error. Edits that yield a valid document are compared value-by-value with the reference instead. " +
			"non-trivial = reference rejected, reader rejected and stayed rejected; distinct = distinct (edit class, outcome) digests",
		Bounds:      map[string]string{"quick": "all single edits on all seed documents", "thorough": "same corpus (single edits are complete); see C06 for crash-only exploration of pairs"},
		Assumptions: []string{"reftext/refbin decide what is malformed; spec points marked unsure in docs/ion-spec-notes.md are accepted by the references so that they are never judged"},
		Body:        c07Body,
		Tiers:       map[string]mc.Tier{"quick": {}, "thorough": {}},
	})
}
