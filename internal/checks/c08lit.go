package checks

// Documents given to C08 as literal text (spellings the reference printer does not produce):
// operators running into comments, closers and comment markers inside strings, symbols and
// lobs next to operators, long strings next to quotes.
var c08Literals = map[string][]byte{}

var c08LiteralTexts = []string{
	"(a +/*c*/ b) 1 (- //x\n c) 2",
	"(+//c\n1) 3",
	"(a/**/b (c */**/ d)) [1] 4",
	"(a +/*) 1 (*/ b) 2",
	"((<//)\n>) ) 5",
	"(a.b ./*.*/. c) {f:(-//}\n)} 6",
	"[(//]\n+ '//' \"//\" /*)*/ *)] 7",
	"(''' ) ''' '\\'' \")\" {{\")\"}} {{ '''}}''' }}) 8",
}
