// Package checks holds one file per property; each registers an mc.Check.
package checks

import (
	"bytes"
	"errors"
	"fmt"
	"math/big"
	"regexp"

	"github.com/amzn/ion-go/ion"

	"verif/internal/catalogue"
	"verif/internal/drive"
	"verif/internal/mc"
	"verif/internal/refbin"
	rm "verif/internal/refmodel"
	"verif/internal/refsym"
)

// readBack runs the plain full traversal of the real Reader over data.
func readBack(data []byte, cat ion.Catalog) (vals []*rm.Value, calls int, err error, pan string) {
	pan = drive.Safe(func() {
		var r ion.Reader
		if cat != nil {
			r = ion.NewReaderCat(bytes.NewReader(data), cat)
		} else {
			r = ion.NewReaderBytes(data)
		}
		vals, calls, err = drive.ReadAll(r)
	})
	return
}

// refDecodeBinary is the independent decode: strict binary validation + symbol context.
func refDecodeBinary(data []byte, cat refsym.Catalog) ([]*rm.Value, *refsym.Result, error) {
	raw, err := refbin.DecodeRaw(data)
	if err != nil {
		return nil, nil, err
	}
	res, err := refsym.Resolve(raw, cat)
	if err != nil {
		return nil, nil, err
	}
	return res.Values, res, nil
}

type doc struct {
	name string
	vals []*rm.Value
}

func (d doc) String() string { return rm.StreamString(d.vals) }

var corpusCache = map[string][]doc{}

// corpus builds the shared document corpus: every catalogue scalar at top level,
// annotated, in each container kind; shapes; sequences.
func corpus(kind string) []doc {
	if c, ok := corpusCache[kind]; ok {
		return c
	}
	var out []doc
	add := func(name string, vals ...*rm.Value) { out = append(out, doc{name, vals}) }
	scalars := catalogue.Scalars()
	for i, s := range scalars {
		add(fmt.Sprintf("scalar%d", i), s)
	}
	annots := catalogue.AnnotSets()
	reps := catalogue.Reps()
	switch kind {
	case "full":
		for i, s := range scalars {
			add(fmt.Sprintf("ann-scalar%d", i), s.AS(annots[1+i%(len(annots)-1)]...))
			add(fmt.Sprintf("list-scalar%d", i), rm.ListV(s, rm.IntV(1)))
			add(fmt.Sprintf("sexp-scalar%d", i), rm.SexpV(rm.IntV(1), s))
			fn := catalogue.FieldNames()
			add(fmt.Sprintf("struct-scalar%d", i), rm.StructV(s.FS(fn[i%len(fn)]), rm.IntV(1).F("z")))
		}
		for i, r := range reps {
			for j, a := range annots[1:] {
				add(fmt.Sprintf("rep%d-ann%d", i, j), r.AS(a...))
			}
			for j, f := range catalogue.FieldNames() {
				add(fmt.Sprintf("rep%d-field%d", i, j), rm.StructV(r.FS(f)))
			}
		}
		for i, s := range catalogue.Shapes(4, 3) {
			add(fmt.Sprintf("shape%d", i), s)
			if i%3 == 0 {
				add(fmt.Sprintf("shape%d-ann", i), s.A("t"), rm.IntV(7))
			}
		}
		for _, t := range []rm.Type{rm.List, rm.Sexp, rm.Struct} {
			for _, n := range []int{0, 1, 13, 14, 127, 128, 16383, 16384, 65535, 65536, 65537, 70000} { // 64 KiB: where the binary reader starts reading in chunks
				add(fmt.Sprintf("len-%v-%d", t, n), catalogue.WithLen(t, n), rm.IntV(9))
				if n > 3 {
					add(fmt.Sprintf("len-ann-%v-%d", t, n), catalogue.WithLen(t, n-3).A("a"), rm.IntV(9))
				}
			}
		}
	case "reps":
		for i, r := range reps {
			add(fmt.Sprintf("rep%d-ann", i), r.A("a"))
			add(fmt.Sprintf("rep%d-in-struct", i), rm.StructV(r.F("f"), r.A("b").F("g")))
			add(fmt.Sprintf("rep%d-in-list", i), rm.ListV(r, r))
			add(fmt.Sprintf("rep%d-in-sexp", i), rm.SexpV(r, r))
		}
		for i, s := range catalogue.Shapes(3, 3) {
			add(fmt.Sprintf("shape%d", i), s, rm.IntV(7))
		}
		out = out[len(scalars):]
	}
	corpusCache[kind] = out
	return out
}

func failPanic(c *mc.Ctx, pan string) bool {
	if pan == "" {
		return false
	}
	c.Fail("panic", drive.PanicSite(pan), "%s", pan)
	return true
}

// errKey reduces an error to a stable class (type name + leading words).
func errKey(err error) string {
	for {
		u := errors.Unwrap(err)
		if u == nil {
			break
		}
		err = u
	}
	s := fmt.Sprintf("%T", err)
	if se, ok := err.(*ion.SyntaxError); ok {
		s += ":" + se.Msg
		if len(s) > 70 {
			s = s[:70]
		}
	}
	return s
}

// diffKey reduces a Diff description to its kind (drops paths and values).
func diffKey(d string) string {
	// "#0/1: int 5 vs 6" -> "int"
	for i := 0; i < len(d); i++ {
		if d[i] == ':' && i+2 < len(d) {
			rest := d[i+2:]
			for j := 0; j < len(rest); j++ {
				if rest[j] == ' ' {
					return rest[:j]
				}
			}
			return rest
		}
	}
	return d
}

func bigOf(i int64) *big.Int { return big.NewInt(i) }

var dollarN = regexp.MustCompile(`^\$[0-9]+$`)

// dollarFamily is the failure family of a written document: "dollarN" if some symbol text in it
// is shaped like $N (the known binary WriteSymbolFromString defect lives there), else "plain".
// Shrinking stays inside a family, so a new defect on ordinary text cannot end up at a $N witness.
func dollarFamily(vals []*rm.Value) string {
	fam := "plain"
	var walk func(v *rm.Value)
	chk := func(s rm.Sym) {
		if s.HasText && dollarN.MatchString(s.Text) {
			fam = "dollarN"
		}
	}
	walk = func(v *rm.Value) {
		for _, a := range v.Annots {
			chk(a)
		}
		if v.Field != nil {
			chk(*v.Field)
		}
		if v.Type == rm.Symbol && !v.Null {
			chk(v.Sym)
		}
		for _, k := range v.Kids {
			walk(k)
		}
	}
	for _, v := range vals {
		walk(v)
	}
	return fam
}
