package checks

import (
	"fmt"

	"verif/internal/mc"
	rm "verif/internal/refmodel"
	"verif/internal/reftext"
)

// C02 — the text reader decodes every valid spelling of a value to exactly that value.
func c02Body(c *mc.Ctx) {
	var d doc
	boundary := false
	switch c.Pick("source", 4) {
	case 0:
		docs := corpus("full")
		d = docs[c.Shard("doc", len(docs))]
	case 1:
		docs := corpus("reps")
		d = docs[c.Shard("doc", len(docs))]
	case 3:
		// the representatives again, shifted so that the Reader's internal 4096-byte buffer ends
		// at every offset of the text in turn (lookahead must not depend on what is buffered)
		docs := corpus("reps")
		d = docs[c.Shard("doc", len(docs))]
		boundary = true
	default:
		vals, class := genValues(c, c.Tier == "thorough")
		d = doc{class, vals}
	}
	if hasSystemShape(d.vals) || !allRepresentable(d.vals) {
		c.Skip("system value shape / not representable in the Go API")
		return
	}
	text := reftext.Print(c, d.vals)
	if boundary {
		text = padToBoundary(c, text, ' ')
	}
	c.Case(func() string { return fmt.Sprintf("text=%q", clipBytes(text, 300)) })
	c.Class(d.name)
	got, calls, err, pan := readBack(text, nil)
	c.Step(calls)
	if failPanic(c, pan) {
		return
	}
	if err != nil {
		c.Fail("unexpected-error", errKey(err), "reader rejected a valid spelling of %s: %v", rm.StreamString(d.vals), err)
		return
	}
	if df := rm.DiffStreams(d.vals, got); df != "" {
		c.Fail("value-mismatch", diffKey(df), "text denotes %s, reader returned %s: %s", rm.StreamString(d.vals), rm.StreamString(got), df)
		return
	}
	if boundary {
		c.Observe(string(text[len(text)-min(len(text), 64):]), len(text))
	} else {
		c.Observe(string(clipBytes(text, 64)), len(text))
	}
	c.Nontrivial()
}

// bufioSize is the size of the buffer the Reader puts around its input.
const bufioSize = 4096

// padToBoundary prefixes data with filler so that the first buffer fill ends after k bytes of
// data, for a chosen k in 1..min(len(data)-1, 48).
func padToBoundary(c *mc.Ctx, data []byte, filler byte) []byte {
	n := len(data) - 1
	if n > 48 {
		n = 48
	}
	if n < 1 {
		return data
	}
	k := 1 + c.Pick("buffer-ends-after", n)
	out := make([]byte, 0, bufioSize+len(data))
	for i := 0; i < bufioSize-k; i++ {
		out = append(out, filler)
	}
	return append(out, data...)
}

func init() {
	mc.Register(&mc.Check{
		ID:    "C02",
		Title: "The text reader decodes every valid spelling of a value to exactly that value",
		Rule: "every document of the corpus and of the C01 value-sequence generator x every rendering the independent spec-derived printer produces with at most d deviations from the canonical spelling; a deviation is one non-default choice at one token: " +
			"inter-token trivia (space, LF, CRLF, lone CR, tab, /*c*/, a block comment holding a CR, //c ended by LF / CR / CRLF, VT, FF) at every gap, null.null, int radix (0x/0X/0b) and underscore, decimal D/+/positional forms, float E/+ forms, timestamp Z vs +00:00 and trailing T, string short/long/split-long forms with each escape style (\\xHH, \\uHHHH, \\UHHHHHHHH, surrogate pair) raw line breaks in long strings as LF / CRLF / CR, and line continuation by backslash + LF / CRLF / CR in every string form, symbol bare/quoted/operator forms, field names as symbol/string/long string, blob inner whitespace, clob short/long/split with raw LF / CRLF / CR line breaks in the long forms, trailing commas. " +
			"Fourth layer: every representative document in every such rendering, prefixed with blanks so that the Reader's 4096-byte buffer ends after each of the first 48 bytes of the text in turn. " +
			"non-trivial = the real Reader's full traversal was compared value-by-value with the model; distinct = distinct (document, text) digests",
		Bounds:      map[string]string{"quick": "d<=1", "thorough": "d<=2"},
		Assumptions: []string{"reftext printer (cross-checked against the reftext parser by its own tests and selfcheck) and refmodel equality are the trusted reference"},
		Body:        c02Body,
		Tiers:       map[string]mc.Tier{"quick": {Bound: 1}, "thorough": {Bound: 2}},
	})
	mc.RegisterSelfcheck("reftext-roundtrip", func() error {
		body := func(c *mc.Ctx) {
			docs := corpus("full")
			d := docs[c.Pick("doc", len(docs))]
			if hasSystemShape(d.vals) {
				return
			}
			text := reftext.Print(c, d.vals)
			got, _, err := refDecodeText(text, nil)
			if err != nil {
				c.Fail("oracle", "parse", "reftext rejects its own printing of %s: %v (%q)", d, err, clipBytes(text, 100))
				return
			}
			if df := rm.DiffStreams(d.vals, got); df != "" {
				c.Fail("oracle", "diff", "reftext round trip of %s: %s (%q)", d, df, clipBytes(text, 100))
			}
		}
		res := mc.Explore(mc.Config{Bound: 1, MaxShrink: 3}, body)
		if res.Internal != "" {
			return fmt.Errorf("%s", res.Internal)
		}
		if len(res.Violations) > 0 {
			return fmt.Errorf("%d oracle disagreements, first: %s", res.Failing, res.Violations[0].Failure.Detail)
		}
		fmt.Printf("  reftext: %d renderings parsed back to their model\n", res.Execs)
		return nil
	})
}
