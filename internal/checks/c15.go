package checks

import (
	"bytes"
	"fmt"
	"math/big"
	"strings"

	"github.com/amzn/ion-go/ion"

	"verif/internal/drive"
	"verif/internal/mc"
	"verif/internal/refbin"
	rm "verif/internal/refmodel"
	"verif/internal/reftext"
)

// C15 — timestamps keep instant, offset, precision and fraction digits in both formats.

type c15Off struct {
	known bool
	min   int
}

var c15Offsets = []c15Off{{true, 0}, {false, 0}, {true, 1}, {true, -1}, {true, 330}, {true, -720}, {true, 1439}, {true, -1439}}

func c15Dates() [][3]int {
	var out [][3]int
	for _, y := range []int{1999, 2000, 2001, 2004, 2100} {
		for m := 1; m <= 12; m++ {
			out = append(out, [3]int{y, m, rm.DaysIn(y, m)})
		}
	}
	out = append(out, [3]int{1, 1, 1}, [3]int{9999, 12, 31}, [3]int{2000, 1, 1}, [3]int{1, 12, 31}, [3]int{9999, 1, 1})
	return out
}

var c15DateList = c15Dates()

var c15Times = [][3]int{{0, 0, 0}, {12, 34, 56}, {23, 59, 59}}

// fraction coefficients for d digits
func c15Fracs(d int) []int64 {
	if d == 0 {
		return []int64{0}
	}
	p := int64(1)
	for i := 0; i < d; i++ {
		p *= 10
	}
	set := []int64{0, 1, p / 2, p - 1, p / 10, 12 % p}
	seen := map[int64]bool{}
	var out []int64
	for _, x := range set {
		if x >= 0 && x < p && !seen[x] {
			seen[x] = true
			out = append(out, x)
		}
	}
	return out
}

func c15Grid(c *mc.Ctx) (rm.TS, bool) {
	d := c15DateList[c.Shard("date", len(c15DateList))]
	prec := rm.Prec(c.Pick("precision", 5) + 1)
	t := rm.TS{Year: d[0], Month: d[1], Day: d[2], Prec: prec}
	if prec < rm.PMonth {
		t.Month = 0
	}
	if prec < rm.PDay {
		t.Day = 0
	}
	if prec < rm.PMinute {
		return t, true
	}
	tm := c15Times[c.Pick("time", len(c15Times))]
	t.Hour, t.Minute = tm[0], tm[1]
	o := c15Offsets[c.Pick("offset", len(c15Offsets))]
	t.OffsetKnown, t.OffsetMin = o.known, o.min
	if prec >= rm.PSecond {
		t.Second = tm[2]
		digits := c.Pick("digits", 10)
		if digits > 0 {
			fr := c15Fracs(digits)
			t.FracDigits = digits
			t.FracCoef = big.NewInt(fr[c.Pick("fraction", len(fr))])
		}
	}
	return t, true
}

func c15Compare(c *mc.Ctx, want rm.TS, got rm.TS, how string) bool {
	if !want.Equal(got) {
		c.Fail("value-mismatch", how, "%s: wrote %v, got %v", how, want, got)
		return false
	}
	return true
}

func c15RoundTrip(c *mc.Ctx) {
	t, _ := c15Grid(c)
	c.Case(func() string { return "timestamp " + t.String() })
	c.Class(fmt.Sprintf("grid/p%d", t.Prec))
	var it ion.Timestamp
	var s string
	var back ion.Timestamp
	var perr error
	if failPanic(c, drive.Safe(func() {
		it = drive.IonTimestamp(t)
		s = it.String()
		back, perr = ion.ParseTimestamp(s)
	})) {
		return
	}
	c.Step(3)
	// the constructed value must itself carry what was asked for
	if !c15Compare(c, t, drive.ModelTimestamp(it), "construct") {
		return
	}
	// String() is a valid Ion literal denoting the value
	vals, err := reftext.Parse([]byte(s))
	if err != nil || len(vals) != 1 || vals[0].Type != rm.Timestamp {
		c.Fail("invalid-output", "String", "String()=%q is not an Ion timestamp literal: %v", s, err)
		return
	}
	if !c15Compare(c, t, vals[0].TS, "String") {
		return
	}
	if perr != nil {
		c.Fail("unexpected-error", "ParseTimestamp", "ParseTimestamp(%q): %v", s, perr)
		return
	}
	if !c15Compare(c, t, drive.ModelTimestamp(back), "ParseTimestamp") {
		return
	}
	// writers and readers, plus the reference binary encodings
	for mode := 0; mode < 3; mode += 2 {
		var buf bytes.Buffer
		var werr error
		if failPanic(c, drive.Safe(func() {
			w := newWriter(mode, &buf)
			werr = w.WriteTimestamp(it)
			if werr == nil {
				werr = w.Finish()
			}
		})) {
			return
		}
		if werr != nil {
			c.Fail("unexpected-error", modeNames[mode]+":write", "WriteTimestamp(%v): %v", t, werr)
			return
		}
		ref, _, rerr := refDecode(mode, buf.Bytes(), nil)
		if rerr != nil || len(ref) != 1 || ref[0].Type != rm.Timestamp {
			c.Fail("invalid-output", modeNames[mode]+":write", "writer output %q for %v: %v", buf.Bytes(), t, rerr)
			return
		}
		if !c15Compare(c, t, ref[0].TS, modeNames[mode]+":written-bytes") {
			return
		}
		got, calls, gerr, pan := readBack(buf.Bytes(), nil)
		c.Step(calls + 2)
		if failPanic(c, pan) {
			return
		}
		if gerr != nil || len(got) != 1 || got[0].Type != rm.Timestamp {
			c.Fail("unexpected-error", modeNames[mode]+":read", "reading back %q: %v", buf.Bytes(), gerr)
			return
		}
		if !c15Compare(c, t, got[0].TS, modeNames[mode]+":read-back") {
			return
		}
	}
	enc := refbin.EncodeStream(c, []*rm.Value{rm.TSV(t)})
	got, calls, gerr, pan := readBack(enc, nil)
	c.Step(calls)
	if failPanic(c, pan) {
		return
	}
	if gerr != nil || len(got) != 1 || got[0].Type != rm.Timestamp {
		c.Fail("unexpected-error", "reference-binary:read", "reading reference encoding %x of %v: %v", enc, t, gerr)
		return
	}
	if !c15Compare(c, t, got[0].TS, "reference-binary:read") {
		return
	}
	c.Observe(s)
	c.Nontrivial()
}

// rejection catalogue (text, through ParseTimestamp and the Reader; binary through the Reader)
var c15BadText = []string{
	"2000-13-01T", "2000-00-01T", "2000-13T", "2000-00T", "2000-01-32", "2000-01-00", "2000-02-30", "2001-02-29", "1900-02-29", "2100-02-29", "2000-04-31", "2000-06-31", "2000-09-31", "2000-11-31",
	"2000-01-01T24:00Z", "2000-01-01T23:60Z", "2000-01-01T00:00:60Z", "2000-01-01T24:00:00Z", "2000-01-01T00:00:00.5+24:00", "2000-01-01T00:00+24:00", "2000-01-01T00:00-24:00", "2000-01-01T00:00+23:60", "2000-01-01T00:00-00:60", "2000-01-01T00:00+25:00",
	"0000-01-01", "0000T", "2000-01-01T00:00", "2000-01-01T00:00:00", "2000-01-01T00Z", "2000-1-01", "20000-01-01", "2000-01-01T00:00:00.Z", "2000-01-01T0:00Z",
	// a time of day without an offset, with every fraction length class (none, 1, 9, >9 digits), and a truncated offset
	"2000-01-01T00:00:00.", "2000-01-01T00:00:00.5", "2000-01-01T00:00:00.123456789", "2000-01-01T00:00:00.1234567890", "2000-01-01T00:00:00.5+", "2000-01-01T00:00:00.5+01", "2000-01-01T00:00:00.5+01:0", "2000-01-01T00:00+01:", "2000-01-01T00:00:00-",
}

func c15Reject(c *mc.Ctx) {
	if c.Pick("format", 2) == 0 {
		s := c15BadText[c.Shard("bad-text", len(c15BadText))]
		via := c.Pick("via", 2)
		c.Case(func() string { return fmt.Sprintf("reject text %q via=%d", s, via) })
		c.Class("reject-text")
		if _, err := reftext.Parse([]byte(s)); err == nil {
			c.Fail("oracle", "reference-accepts", "the reference accepts %q", s)
			return
		}
		var err error
		if via == 0 {
			if failPanic(c, drive.Safe(func() { _, err = ion.ParseTimestamp(s) })) {
				return
			}
		} else {
			_, _, e, pan := readBack([]byte(s), nil)
			if failPanic(c, pan) {
				return
			}
			err = e
		}
		c.Step(1)
		if err == nil {
			c.Fail("missing-error", []string{"ParseTimestamp", "Reader"}[via], "%q was accepted", s)
			return
		}
		c.Observe("rejected")
		c.Nontrivial()
		return
	}
	// binary: every field out of range at every precision; hour without minute
	type fld struct {
		name string
		idx  int
		val  uint64
	}
	bads := []fld{{"month 0", 1, 0}, {"month 13", 1, 13}, {"day 0", 2, 0}, {"day 32", 2, 32}, {"day 30 in Feb", 2, 30}, {"hour 24", 3, 24}, {"minute 60", 4, 60}, {"second 60", 5, 60}, {"year 0", 0, 0}, {"year 10001", 0, 10001}, {"hour without minute", 3, 99}}
	b := bads[c.Shard("bad-field", len(bads))]
	nf := b.idx + 1 + c.Pick("extra-fields", 6-b.idx)
	if nf > 6 {
		nf = 6
	}
	fields := []uint64{2000, 2, 28, 23, 59, 59}
	fields[b.idx] = b.val
	if b.name == "hour without minute" {
		fields[3] = 12
		nf = 4
	} else if nf == 4 {
		nf = 5 // hour always travels with minute
	}
	body := []byte{0x80}
	if c.Pick("offset", 2) == 1 {
		body = []byte{0xC0}
	}
	for i := 0; i < nf; i++ {
		body = append(body, refbin.VarUint(fields[i], 0)...)
	}
	data := append(append([]byte{}, refbin.BVM...), byte(0x60|len(body)))
	data = append(data, body...)
	c.Case(func() string { return fmt.Sprintf("reject binary %s: %x", b.name, data) })
	c.Class("reject-binary")
	if _, err := refbin.DecodeRaw(data); err == nil {
		c.Skip("the reference accepts this combination")
		return
	}
	_, calls, err, pan := readBack(data, nil)
	c.Step(calls)
	if failPanic(c, pan) {
		return
	}
	if err == nil {
		c.Fail("missing-error", "binary:"+b.name, "binary timestamp with %s was accepted (%x)", b.name, data)
		return
	}
	c.Observe("rejected")
	c.Nontrivial()
}

// fractions finer than nanoseconds are rounded to the nearest nanosecond
func c15Rounding(c *mc.Ctx) {
	digits := 10 + c.Shard("digits", 12) // 10..21
	// first nine digits, then the tail
	heads := []string{"000000000", "000000001", "499999999", "500000000", "999999998", "999999999", "123456789"}
	tails := []string{"0", "1", "4", "49", "5", "50", "51", "9", "99"}
	h := heads[c.Pick("head", len(heads))]
	tl := tails[c.Pick("tail", len(tails))]
	for len(tl) < digits-9 {
		tl += "0"
	}
	if len(tl) > digits-9 {
		tl = tl[:digits-9]
	}
	frac := h + tl
	binary := c.Pick("format", 2) == 1
	c.Case(func() string { return fmt.Sprintf("fraction .%s (%d digits) binary=%v", frac, digits, binary) })
	c.Class("rounding")
	// expected nanoseconds: round half up or half even are both "nearest"; an exact tie accepts either neighbour
	head, _ := new(big.Int).SetString(h, 10)
	tailNum, _ := new(big.Int).SetString(tl, 10)
	half := new(big.Int).Exp(big.NewInt(10), big.NewInt(int64(len(tl))), nil)
	half.Div(half, big.NewInt(2))
	cmp := tailNum.Cmp(half)
	lo := head.Int64()
	accept := map[int64]bool{}
	switch {
	case cmp < 0:
		accept[lo] = true
	case cmp > 0:
		accept[lo+1] = true
	default:
		accept[lo], accept[lo+1] = true, true
	}
	var data []byte
	if binary {
		coef, _ := new(big.Int).SetString(frac, 10)
		body := []byte{0x80}
		for _, f := range []uint64{2000, 6, 15, 12, 34, 56} {
			body = append(body, refbin.VarUint(f, 0)...)
		}
		body = append(body, refbin.VarInt(int64(-digits), false, 0)...)
		if coef.Sign() != 0 {
			body = append(body, refbin.IntBytes(coef, false, 0)...)
		}
		data = append(append([]byte{}, refbin.BVM...), 0x6E)
		data = append(data, refbin.VarUint(uint64(len(body)), 0)...)
		data = append(data, body...)
	} else {
		data = []byte("2000-06-15T12:34:56." + frac + "Z")
	}
	got, calls, err, pan := readBack(data, nil)
	c.Step(calls)
	if failPanic(c, pan) {
		return
	}
	if err != nil || len(got) != 1 || got[0].Type != rm.Timestamp {
		c.Fail("unexpected-error", "rounding:"+map[bool]string{true: "binary", false: "text"}[binary], "a valid timestamp with %d fraction digits was rejected: %v", digits, err)
		return
	}
	ts := got[0].TS
	// total nanoseconds since 12:34:56 of that day, so that a carry into the next second is handled
	ns := int64(0)
	if ts.FracDigits > 0 {
		x := new(big.Int).Set(ts.FracCoef)
		for i := ts.FracDigits; i < 9; i++ {
			x.Mul(x, big.NewInt(10))
		}
		ns = x.Int64()
	}
	total := (int64(ts.Hour*3600+ts.Minute*60+ts.Second)-(12*3600+34*60+56))*1000000000 + ns
	if ts.Year != 2000 || ts.Month != 6 || ts.Day != 15 || !accept[total] {
		var want []string
		for k := range accept {
			want = append(want, fmt.Sprint(k))
		}
		c.Fail("value-mismatch", "rounding:"+map[bool]string{true: "binary", false: "text"}[binary], "fraction .%s read as %v (= %d ns past 12:34:56), want %s ns", frac, ts, total, strings.Join(want, " or "))
		return
	}
	c.Observe(total)
	c.Nontrivial()
}

// c15Pairs: two timestamps in ONE stream (a reader must not carry state from one to the next).
var c15PairSet = []rm.TS{
	{Year: 2004, Prec: rm.PYear},
	{Year: 2003, Month: 4, Prec: rm.PMonth},
	{Year: 2001, Month: 2, Day: 3, Prec: rm.PDay},
	{Year: 2000, Month: 6, Day: 15, Hour: 10, Minute: 30, Prec: rm.PMinute, OffsetKnown: true},
	{Year: 2000, Month: 6, Day: 15, Hour: 10, Minute: 30, Second: 45, Prec: rm.PSecond, OffsetKnown: true, OffsetMin: 90},
	{Year: 2000, Month: 6, Day: 15, Hour: 23, Minute: 59, Second: 59, Prec: rm.PSecond, FracDigits: 3, FracCoef: big.NewInt(250), OffsetKnown: false},
	{Year: 1999, Month: 12, Day: 31, Hour: 1, Minute: 2, Second: 3, Prec: rm.PSecond, FracDigits: 9, FracCoef: big.NewInt(1), OffsetKnown: true, OffsetMin: -480},
}

func c15Pairs(c *mc.Ctx) {
	a := c15PairSet[c.Shard("first", len(c15PairSet))]
	b := c15PairSet[c.Pick("second", len(c15PairSet))]
	mode := c.Pick("carrier", 3) // 0 ion-go text writer, 1 ion-go binary writer, 2 reference binary
	vals := []*rm.Value{rm.TSV(a), rm.TSV(b), rm.ListV(rm.TSV(b), rm.TSV(a))}
	c.Case(func() string { return fmt.Sprintf("stream %s carrier=%d", rm.StreamString(vals), mode) })
	c.Class("pairs")
	var data []byte
	if mode == 2 {
		data = refbin.EncodeStream(rm.Canon{}, vals)
	} else {
		var buf bytes.Buffer
		var err error
		if failPanic(c, drive.Safe(func() {
			w := newWriter([]int{0, 2}[mode], &buf)
			err = drive.WriteStream(w, vals, nil)
		})) {
			return
		}
		if err != nil {
			c.Fail("unexpected-error", "pairs:write", "%v", err)
			return
		}
		data = buf.Bytes()
	}
	got, calls, err, pan := readBack(data, nil)
	c.Step(calls)
	if failPanic(c, pan) {
		return
	}
	if err != nil {
		c.Fail("unexpected-error", "pairs:read", "%v", err)
		return
	}
	if df := rm.DiffStreams(vals, got); df != "" {
		c.Fail("value-mismatch", "pairs", "wrote %s, read %s: %s", rm.StreamString(vals), rm.StreamString(got), df)
		return
	}
	c.Observe(rm.StreamString(got))
	c.Nontrivial()
}

func c15Body(c *mc.Ctx) {
	switch c.Pick("part", 4) {
	case 3:
		c15Pairs(c)
	case 0:
		c15RoundTrip(c)
	case 1:
		c15Reject(c)
	default:
		c15Rounding(c)
	}
}

func init() {
	mc.Register(&mc.Check{
		ID:    "C15",
		Title: "Timestamps keep instant, offset, precision and fraction digits in both formats",
		Rule: "(1) the full product of 65 dates (every month end of 1999/2000/2001/2004/2100, 0001-01-01, 0001-12-31, 9999-01-01, 9999-12-31) x 5 precisions x 3 times x 8 offsets (UTC, unknown, ±1, +330, -720, ±1439 — crossing into UTC year 0 and 10000) x fraction digits 0..9 x up to 6 coefficients per digit count (0, 1, half, all nines, leading/trailing zeros): constructed through the Go API, formatted (String must parse under the reference grammar to the same value), ParseTimestamp, text write+read, binary write+read (bytes judged by the independent decoder and by the Reader), and every reference binary encoding with <=d deviations read back; " +
			"(2) rejection: 42 invalid literals (impossible fields, and a time of day without or with a truncated offset at every fraction length class) through ParseTimestamp and the Reader, and binary timestamps with each field out of range at each precision and an hour without minutes; (4) every ordered pair of 7 timestamps of different precisions in ONE stream (top level and inside a list) through the text writer, the binary writer and the reference encoder, read back by one Reader; (3) rounding: fractions of 10..21 digits built from 7 nine-digit heads x 9 tails around the half-unit boundary, in text and binary, must land on a nearest nanosecond (ties accept either). " +
			"non-trivial = all comparisons of the case were evaluated; distinct = distinct (part, formatted value / outcome) digests",
		Bounds:      map[string]string{"quick": "d<=1 on the reference encodings", "thorough": "d<=2"},
		Assumptions: []string{"the reference calendar arithmetic (refmodel, proleptic Gregorian, no time.Time) is trusted", "a Go Timestamp whose nanoseconds carry more digits than its declared fraction digits is an inconsistent object and is not generated"},
		Body:        c15Body,
		Tiers:       map[string]mc.Tier{"quick": {Bound: 1}, "thorough": {Bound: 2}},
	})
}
