package checks

import (
	"bytes"
	"fmt"

	"github.com/amzn/ion-go/ion"

	"verif/internal/catalogue"
	"verif/internal/drive"
	"verif/internal/mc"
	rm "verif/internal/refmodel"
)

var (
	genScalars = catalogue.Scalars()
	genReps    = catalogue.Reps()
	genAnnots  = catalogue.AnnotSets()
	genFields  = catalogue.FieldNames()
	genShapes4 = catalogue.Shapes(4, 3)
	genShapes3 = catalogue.Shapes(3, 3)
)

// inContext wraps v: 0 top level, 1 list, 2 sexp, 3.. struct under field name k-3.
func inContext(v *rm.Value, k int) *rm.Value {
	switch k {
	case 0:
		return v
	case 1:
		return rm.ListV(v)
	case 2:
		return rm.SexpV(v)
	}
	return rm.StructV(v.FS(genFields[k-3]))
}

func numContexts() int { return 3 + len(genFields) }

// genValues enumerates the writer-side value sequences (DESIGN §7 C01 layers A–F).
// The first choice inside each layer is a Shard point.
func genValues(c *mc.Ctx, thorough bool) (vals []*rm.Value, class string) {
	nl := 5
	if thorough {
		nl = 6
	}
	switch layer := c.Pick("layer", nl); layer {
	case 0: // A: every scalar x annotation set x context
		si := c.Shard("scalar", len(genScalars))
		ai := c.Pick("annots", len(genAnnots))
		k := c.Pick("context", numContexts())
		v := genScalars[si].AS(genAnnots[ai]...)
		return []*rm.Value{inContext(v, k)}, fmt.Sprintf("A/%d/%d/%d", si, ai, k)
	case 1: // B: ordered pairs of token-class representatives in each context
		i := c.Shard("rep1", len(genReps))
		j := c.Pick("rep2", len(genReps))
		k := c.Pick("context", 4)
		a, b := genReps[i], genReps[j]
		switch k {
		case 0:
			return []*rm.Value{a, b}, fmt.Sprintf("B/%d/%d/top", i, j)
		case 1:
			return []*rm.Value{rm.ListV(a, b)}, fmt.Sprintf("B/%d/%d/list", i, j)
		case 2:
			return []*rm.Value{rm.SexpV(a, b)}, fmt.Sprintf("B/%d/%d/sexp", i, j)
		}
		return []*rm.Value{rm.StructV(a.F("f"), b.F("g"))}, fmt.Sprintf("B/%d/%d/struct", i, j)
	case 2: // C: shapes, with and without annotation on the container
		i := c.Shard("shape", len(genShapes4))
		s := genShapes4[i]
		if c.Pick("shape.annot", 2) == 1 {
			s = s.A("t")
		}
		return []*rm.Value{s, rm.IntV(7)}, fmt.Sprintf("C/%d", i)
	case 3: // D: boundary payload lengths per container kind, bare and under an annotation wrapper
		lens := []int{0, 1, 13, 14, 127, 128, 16383, 16384, 65536, 70000}
		li := c.Shard("len", len(lens))
		t := []rm.Type{rm.List, rm.Sexp, rm.Struct}[c.Pick("kind", 3)]
		n := lens[li]
		var v *rm.Value
		if c.Pick("wrapped", 2) == 1 {
			if n < 3 {
				n = 3
			}
			// the wrapper's payload is annot_length(1) + SID(1) + the container's full encoding;
			// pick the inner payload so that the *wrapper* payload hits the boundary
			inner := n - 2 - 1 // container header of one byte when short
			if inner >= 14 {
				inner = n - 2 - 2
				if inner >= 128 {
					inner = n - 2 - 3
				}
			}
			if inner < 0 {
				inner = 0
			}
			v = catalogue.WithLen(t, inner).A("name")
		} else {
			v = catalogue.WithLen(t, n)
		}
		return []*rm.Value{v, rm.IntV(9)}, fmt.Sprintf("D/%v/%d", t, n)
	case 4: // E: streams with n distinct symbols so SIDs cross the 1-byte boundaries
		counts := []int{1, 2, 5, 117, 118, 119, 120, 130, 250}
		n := counts[c.Shard("nsyms", len(counts))]
		use := c.Pick("use", 3)
		var vs []*rm.Value
		for i := 0; i < n; i++ {
			name := fmt.Sprintf("s%d", i)
			switch use {
			case 0:
				vs = append(vs, rm.SymV(name))
			case 1:
				vs = append(vs, rm.IntV(int64(i)).A(name))
			default:
				vs = append(vs, rm.StructV(rm.IntV(int64(i)).F(name)))
			}
		}
		// re-use the last and first symbols after all have been defined
		vs = append(vs, rm.SymV(fmt.Sprintf("s%d", n-1)), rm.SymV("s0"))
		return vs, fmt.Sprintf("E/%d/%d", n, use)
	default: // F (thorough): sequences of three top-level values over representatives and small shapes
		alpha := append(append([]*rm.Value{}, genReps...), genShapes3...)
		i := c.Shard("v1", len(alpha))
		j := c.Pick("v2", len(alpha))
		k := c.Pick("v3", len(genReps))
		return []*rm.Value{alpha[i], alpha[j], genReps[k]}, fmt.Sprintf("F/%d/%d/%d", i, j, k)
	}
}

var modeNames = []string{"text", "pretty", "binary", "text-quiet", "text-imports", "binary-imports"}

// genImport is the shared table the "-imports" writer modes are constructed with: the text
// writer then emits a symbol table before the first value, the binary writer uses import IDs.
var genImportSyms = []string{"a", "zz_imported", "name"}

func genImport() ion.SharedSymbolTable {
	return ion.NewSharedSymbolTable("gen_shared", 1, genImportSyms)
}

func newWriter(mode int, buf *bytes.Buffer) ion.Writer {
	switch mode {
	case 0:
		return ion.NewTextWriter(buf)
	case 1:
		return ion.NewTextWriterOpts(buf, ion.TextWriterPretty)
	case 3:
		return ion.NewTextWriterOpts(buf, ion.TextWriterQuietFinish)
	case 4:
		return ion.NewTextWriter(buf, genImport())
	case 5:
		return ion.NewBinaryWriter(buf, genImport())
	}
	return ion.NewBinaryWriter(buf)
}

// writeWith drives the real Writer; entry-point variants are Dev points.
func writeWith(c *mc.Ctx, mode int, vals []*rm.Value) (out []byte, calls int, failedCall string, err error, pan string) {
	o := &drive.WriteOpts{
		IntVia:    c.Dev("int.via", 3),
		SymViaStr: c.Dev("sym.via", 2) == 1,
		AnnotBulk: c.Dev("annot.bulk", 2) == 1,
	}
	if len(vals) > 1 {
		switch c.Dev("finish.each", 3) {
		case 1:
			o.FinishEach = true
		case 2:
			o.FinishEach, o.FinishEmpty = true, true
		}
	} else {
		o.FinishEmpty = c.Dev("finish.empty", 2) == 1
	}
	// tokens that carry, besides their text, an ID from some other table (system range, local range)
	o.ForeignSID = []int64{0, 4, 10}[c.Dev("token.sid", 3)]
	o.OnCall = func(name string, e error) {
		calls++
		if e != nil && failedCall == "" {
			failedCall = name
		}
	}
	var buf bytes.Buffer
	pan = drive.Safe(func() {
		w := newWriter(mode, &buf)
		err = drive.WriteStream(w, vals, o)
	})
	return buf.Bytes(), calls, failedCall, err, pan
}

func allRepresentable(vals []*rm.Value) bool {
	for _, v := range vals {
		if !drive.Representable(v) {
			return false
		}
	}
	return true
}

// hasSystemShape reports values that are not user values in the Ion data
// model (DESIGN §4 rule 3): a top-level struct annotated $ion_symbol_table
// first, or a bare top-level symbol $ion_1_0.
func hasSystemShape(vals []*rm.Value) bool {
	for _, v := range vals {
		if v.Type == rm.Struct && len(v.Annots) > 0 && v.Annots[0].HasText && v.Annots[0].Text == "$ion_symbol_table" {
			return true
		}
		if v.Type == rm.Symbol && !v.Null && len(v.Annots) == 0 && v.Sym.HasText && v.Sym.Text == "$ion_1_0" {
			return true
		}
	}
	return false
}
