package checks

import (
	"bytes"
	"fmt"
	"regexp"
	"strings"

	"github.com/amzn/ion-go/ion"

	"verif/internal/drive"
	"verif/internal/mc"
	"verif/internal/refbin"
	rm "verif/internal/refmodel"
	"verif/internal/refsym"
	"verif/internal/reftext"
)

// C10 — symbols in a stream resolve against the symbol table in force at that point.

type c10Event struct {
	name string
	vals func() []*rm.Value // raw values (SID references as NoText)
}

func c10LST(imports *rm.Value, locals ...string) *rm.Value {
	st := rm.StructV().A("$ion_symbol_table")
	if imports != nil {
		st.Kids = append(st.Kids, imports.F("imports"))
	}
	l := rm.ListV()
	for _, s := range locals {
		l.Kids = append(l.Kids, rm.StrV(s))
	}
	st.Kids = append(st.Kids, l.F("symbols"))
	return st
}

func c10Import(maxID *rm.Value) *rm.Value {
	imp := rm.StructV(rm.StrV("sh").F("name"), rm.IntV(2).F("version"))
	if maxID != nil {
		imp.Kids = append(imp.Kids, maxID.F("max_id"))
	}
	return rm.ListV(imp)
}

func c10Use(n int64) *rm.Value {
	s := rm.NoText(n)
	return rm.StructV(rm.SymTok(s).AS(s).FS(s))
}

var c10Events = []c10Event{
	{"use($10)", func() []*rm.Value { return []*rm.Value{c10Use(10)} }},
	{"LST[s1,s2]", func() []*rm.Value { return []*rm.Value{c10LST(nil, "s1", "s2")} }},
	{"marker", func() []*rm.Value { return []*rm.Value{refbin.VersionMarker()} }},
	{"append[ap]", func() []*rm.Value { return []*rm.Value{c10LST(rm.SymV("$ion_symbol_table"), "ap")} }},
	{"use($11)", func() []*rm.Value { return []*rm.Value{c10Use(11)} }},
	{"import(sh,2,max_id:2)+[l]", func() []*rm.Value { return []*rm.Value{c10LST(c10Import(rm.IntV(2)), "l")} }},
	{"import(sh,2,max_id:1)+[l]", func() []*rm.Value { return []*rm.Value{c10LST(c10Import(rm.IntV(1)), "l")} }},
	{"import(sh,2,max_id:4)+[l]", func() []*rm.Value { return []*rm.Value{c10LST(c10Import(rm.IntV(4)), "l")} }},
	{"use($12)", func() []*rm.Value { return []*rm.Value{c10Use(12)} }},
	{"use($4)", func() []*rm.Value { return []*rm.Value{c10Use(4)} }},
	{"use($0)", func() []*rm.Value { return []*rm.Value{c10Use(0)} }},
	{"LST[s3]", func() []*rm.Value { return []*rm.Value{c10LST(nil, "s3")} }},
	{"import(sh,2,no max_id)", func() []*rm.Value { return []*rm.Value{c10LST(c10Import(nil), "l")} }},
	{"import(sh,2,max_id:null)", func() []*rm.Value { return []*rm.Value{c10LST(c10Import(rm.NullOf(rm.Int)), "l")} }},
	{"import(sh,2,max_id:-1)", func() []*rm.Value { return []*rm.Value{c10LST(c10Import(rm.IntV(-1)), "l")} }},
	{"use($14)", func() []*rm.Value { return []*rm.Value{c10Use(14)} }},
	{"nested-table-struct", func() []*rm.Value {
		return []*rm.Value{rm.ListV(c10LST(nil, "zz")), rm.StructV(c10LST(nil, "yy").F("name"))}
	}},
	{"LST[g1,null.string,7,g2]", func() []*rm.Value {
		st := c10LST(nil)
		st.Kids[0].Kids = []*rm.Value{rm.StrV("g1"), rm.NullOf(rm.String), rm.IntV(7), rm.StrV("g2")}
		return []*rm.Value{st}
	}},
	{"use($13)", func() []*rm.Value { return []*rm.Value{c10Use(13)} }},
	{"import(sh,2,max_id:0)+[l]", func() []*rm.Value { return []*rm.Value{c10LST(c10Import(rm.IntV(0)), "l")} }},
	{"import(sh,2,max_id:2) only, symbols:[]", func() []*rm.Value { return []*rm.Value{c10LST(c10Import(rm.IntV(2)))} }},
	{"import(sh,2,max_id:2) only, no symbols field", func() []*rm.Value {
		st := c10LST(c10Import(rm.IntV(2)))
		st.Kids = st.Kids[:1]
		return []*rm.Value{st}
	}},
	{"import(sh,2,max_id:-2)+[l]", func() []*rm.Value { return []*rm.Value{c10LST(c10Import(rm.IntV(-2)), "l")} }},
	{"LST[oc] with open content named $0 and $99", func() []*rm.Value {
		st := c10LST(nil, "oc")
		st.Kids = append([]*rm.Value{rm.IntV(1).FS(rm.NoText(0))}, st.Kids...)
		return []*rm.Value{st}
	}},
	{"import(sh,2,max_id:2)+[l] with open content named $0 in the import", func() []*rm.Value {
		st := c10LST(c10Import(rm.IntV(2)), "l")
		imp := st.Kids[0].Kids[0]
		imp.Kids = append([]*rm.Value{rm.StrV("x").FS(rm.NoText(0))}, imp.Kids...)
		return []*rm.Value{st}
	}},
	{"import(sh, no version, max_id:4)+[l]", func() []*rm.Value {
		st := c10LST(c10Import(rm.IntV(4)), "l")
		imp := st.Kids[0].Kids[0]
		imp.Kids = append(imp.Kids[:1], imp.Kids[2:]...)
		return []*rm.Value{st}
	}},
	{"import(sh, version:0, max_id:4)+[l]", func() []*rm.Value {
		st := c10LST(c10Import(rm.IntV(4)), "l")
		st.Kids[0].Kids[0].Kids[1] = rm.IntV(0).F("version")
		return []*rm.Value{st}
	}},
	{"user struct meta::$ion_symbol_table::{symbols:[u1]}", func() []*rm.Value {
		st := c10LST(nil, "u1")
		st.Annots = append([]rm.Sym{rm.T("name")}, st.Annots...) // a system symbol as the first annotation: it is not a table
		return []*rm.Value{st}
	}},
	{"append-quoted", func() []*rm.Value {
		s := rm.SymV("$ion_symbol_table")
		s.Sym.Quoted = true
		return []*rm.Value{c10LST(s, "aq")}
	}},
}

var c10Digits = regexp.MustCompile(`[0-9]+`)

// c10DiffKey: the first difference with its position and numbers blanked ("annotations: $N vs ”").
func c10DiffKey(df string) string {
	if i := strings.Index(df, ": "); i >= 0 {
		df = df[i+2:]
	}
	return c10Digits.ReplaceAllString(clipStr(df, 60), "N")
}

type c10Cat struct {
	name string
	ref  refsym.Catalog
}

var c10Catalogs = []c10Cat{
	{"exact(sh v2)", refsym.Catalog{{Name: "sh", Version: 2, Symbols: []string{"x", "y"}}}},
	{"none", nil},
	{"newer(sh v3)", refsym.Catalog{{Name: "sh", Version: 3, Symbols: []string{"x", "y", "z"}}}},
	{"older(sh v1)", refsym.Catalog{{Name: "sh", Version: 1, Symbols: []string{"x"}}}},
	{"v1+v3 (added newest first)", refsym.Catalog{{Name: "sh", Version: 3, Symbols: []string{"x", "y", "z"}}, {Name: "sh", Version: 1, Symbols: []string{"x"}}}},
}

func ionCatalog(rc refsym.Catalog) ion.Catalog {
	var ts []ion.SharedSymbolTable
	for _, s := range rc {
		ts = append(ts, ion.NewSharedSymbolTable(s.Name, s.Version, s.Symbols))
	}
	return ion.NewCatalog(ts...)
}

// sidsDiffer reports a symbol whose text is unknown on both sides but whose IDs differ.
func sidsDiffer(a, b *rm.Value) string {
	chk := func(x, y rm.Sym, what string) string {
		if !x.HasText && !y.HasText && x.SID != y.SID {
			return fmt.Sprintf("%s: unknown-text symbol $%d vs $%d", what, x.SID, y.SID)
		}
		return ""
	}
	for i := range a.Annots {
		if i < len(b.Annots) {
			if d := chk(a.Annots[i], b.Annots[i], "annotation"); d != "" {
				return d
			}
		}
	}
	if a.Field != nil && b.Field != nil {
		if d := chk(*a.Field, *b.Field, "field name"); d != "" {
			return d
		}
	}
	if a.Type == rm.Symbol && !a.Null && b.Type == rm.Symbol && !b.Null {
		if d := chk(a.Sym, b.Sym, "symbol"); d != "" {
			return d
		}
	}
	for i := range a.Kids {
		if i < len(b.Kids) {
			if d := sidsDiffer(a.Kids[i], b.Kids[i]); d != "" {
				return d
			}
		}
	}
	return ""
}

func c10Body(c *mc.Ctx) {
	maxLen := 4
	if c.Tier == "thorough" {
		maxLen = 5
	}
	binary := c.Pick("format", 2) == 1
	ci := c.Pick("catalog", len(c10Catalogs))
	var raw []*rm.Value
	var names []string
	for i := 0; i < maxLen; i++ {
		var k int
		if i == 0 {
			k = c.Shard("event", len(c10Events)+1)
		} else if i == 4 {
			// the fifth event (thorough tier) is drawn from the first 21 events only
			k = c.Pick("event", 21+1)
		} else {
			k = c.Pick("event", len(c10Events)+1)
		}
		if k == 0 {
			break
		}
		raw = append(raw, c10Events[k-1].vals()...)
		names = append(names, c10Events[k-1].name)
	}
	cat := c10Catalogs[ci]
	var data []byte
	if binary {
		ids := map[string]uint64{}
		for i, s := range refbin.SystemSymbols {
			ids[s] = uint64(i + 1)
		}
		e := &refbin.Encoder{Ch: rm.Canon{}, SID: func(t string) uint64 { return ids[t] }}
		data = append(data, refbin.BVM...)
		for _, v := range raw {
			if v.Type == rm.Symbol && v.Sym.HasText && v.Sym.Text == "$ion_1_0" && len(v.Annots) == 0 {
				data = append(data, refbin.BVM...)
				continue
			}
			data = append(data, e.Value(v)...)
		}
	} else {
		data = reftext.Print(rm.Canon{}, raw)
	}
	c.Case(func() string {
		return fmt.Sprintf("format=%s catalog=%s events=[%s]", map[bool]string{true: "binary", false: "text"}[binary], cat.name, strings.Join(names, "; "))
	})
	c.Class(cat.name)
	// the reference reads the same bytes (so the reference parser/decoder is part of the oracle too)
	var rres *refsym.Result
	var rerr error
	if binary {
		var rawb []*rm.Value
		rawb, rerr = refbin.DecodeRaw(data)
		if rerr == nil {
			rres, rerr = refsym.Resolve(rawb, cat.ref)
		}
	} else {
		var rawt []*rm.Value
		rawt, rerr = reftext.Parse(data)
		if rerr == nil {
			rres, rerr = refsym.Resolve(rawt, cat.ref)
		}
	}
	if rres == nil {
		c.Fail("oracle", "reference-cannot-read", "reference rejected its own stream: %v", rerr)
		return
	}
	if rres.Unsure {
		c.Skip("construct the specification leaves open")
		return
	}
	// the real reader, recording MaxID at every top-level value
	var got []*rm.Value
	var maxIDs []int64
	var gerr error
	calls := 0
	pan := drive.Safe(func() {
		r := ion.NewReaderCat(bytes.NewReader(data), ionCatalog(cat.ref))
		rc := &drive.ReadCounter{}
		for r.Next() {
			m := int64(r.SymbolTable().MaxID())
			v, err := drive.ReadValue(r, rc)
			if err != nil {
				gerr = err
				break
			}
			got = append(got, v)
			maxIDs = append(maxIDs, m)
		}
		if gerr == nil {
			gerr = r.Err()
		}
		calls = rc.Calls + len(got) + 2
	})
	c.Step(calls)
	if failPanic(c, pan) {
		return
	}
	want := rres.Values
	if rerr != nil {
		// the stream has an error the property names (undefined SID, import without usable max_id and no exact match)
		if gerr == nil {
			c.Fail("missing-error", "stream-error", "reader accepted a stream the reference rejects (%v); it returned %s", rerr, rm.StreamString(got))
			return
		}
		if len(got) > len(want) {
			c.Fail("value-mismatch", "values-after-error-point", "reader returned %d values, only %d precede the error (%v)", len(got), len(want), rerr)
			return
		}
		want = want[:len(got)]
	} else if gerr != nil {
		c.Fail("unexpected-error", errKey(gerr), "reader failed on a valid stream: %v (reference: %s)", gerr, rm.StreamString(want))
		return
	}
	if df := rm.DiffStreams(want, got); df != "" {
		// the key says WHAT differs (digits blanked), so that shrinking cannot slide from one defect into another
		c.Fail("value-mismatch", c10DiffKey(df), "reference %s, reader %s: %s", rm.StreamString(want), rm.StreamString(got), df)
		return
	}
	for i := range got {
		if d := sidsDiffer(want[i], got[i]); d != "" {
			c.Fail("value-mismatch", "unknown-sid", "value #%d: %s", i, d)
			return
		}
		if maxIDs[i] != rres.MaxIDs[i] {
			c.Fail("value-mismatch", "MaxID", "at value #%d (%s) SymbolTable().MaxID()=%d, reference %d", i, got[i], maxIDs[i], rres.MaxIDs[i])
			return
		}
	}
	c.Observe(rm.StreamString(got), fmt.Sprint(maxIDs), rerr != nil)
	c.Nontrivial()
}

func init() {
	mc.Register(&mc.Check{
		ID:    "C10",
		Title: "Symbols in a stream resolve against the symbol table in force at that point",
		Rule: "EVERY event sequence of length <= L over 29 events {version marker; replacing LST [s1,s2] / [s3]; LST importing sh v2 with max_id 0 / 1 / 2 / 4 / absent / null / -1 / -2 plus local l; LST importing sh with no version / version 0 (both mean version 1); LST importing sh v2 and declaring no local symbols (symbols:[] and no symbols field); an LST whose symbols list holds null.string and a non-string; appending LST (imports:$ion_symbol_table, bare and quoted); tables carrying open content whose field name has no text ($0) in the table struct and in an import struct; user value using SID n as field name, annotation and symbol value for n in {0,4,10,11,12,13,14}; structs annotated $ion_symbol_table nested in a list and a struct; a top-level struct whose SECOND annotation is $ion_symbol_table (a user value)} x 5 catalogs {exact v2, none, newer v3 only, older v1 only, v1+v3} x {binary, text}, read by the real Reader with that catalog. " +
			"Oracle: the reference decoder/parser + refsym context machine over the same bytes: every user value's symbols by text / unknown-text+SID, SymbolTable().MaxID() at every top-level value, no table struct surfacing, and a stream error exactly when the reference finds an undefined SID or an import without usable max_id and no exact match (values before the error compared). " +
			"non-trivial = all values and MaxIDs compared; distinct = distinct (catalog, values, MaxIDs, error) digests",
		Bounds:      map[string]string{"quick": "L=4", "thorough": "L=5, the fifth event drawn from the first 21 of the 29 events"},
		Assumptions: []string{"refsym (Appendix A.3), refbin, reftext are the trusted reference", "repeated imports/symbols fields are not generated (specification leaves them open)"},
		Body:        c10Body,
		MaxShrink:   4000000, // every failing execution of the known defect has to reach its witness
		Tiers:       map[string]mc.Tier{"quick": {}, "thorough": {}},
	})
}
