package checks

import (
	"bytes"
	"fmt"
	"strings"

	"github.com/amzn/ion-go/ion"

	"verif/internal/drive"
	"verif/internal/mc"
	rm "verif/internal/refmodel"
	"verif/internal/refwriter"
)

// C12 — any Writer call sequence ends in a correct stream or an error.

type wcall struct {
	name  string
	do    func(w ion.Writer) error
	model func(a *refwriter.Automaton)
}

var c12Alphabet = []wcall{
	{"WriteInt(1)", func(w ion.Writer) error { return w.WriteInt(1) }, func(a *refwriter.Automaton) { a.Value(rm.IntV(1), "WriteInt") }},
	{"BeginList", func(w ion.Writer) error { return w.BeginList() }, func(a *refwriter.Automaton) { a.Begin(rm.List) }},
	{"EndList", func(w ion.Writer) error { return w.EndList() }, func(a *refwriter.Automaton) { a.End(rm.List) }},
	{"BeginStruct", func(w ion.Writer) error { return w.BeginStruct() }, func(a *refwriter.Automaton) { a.Begin(rm.Struct) }},
	{"EndStruct", func(w ion.Writer) error { return w.EndStruct() }, func(a *refwriter.Automaton) { a.End(rm.Struct) }},
	{"FieldName(f)", func(w ion.Writer) error { return w.FieldName(ion.NewSymbolTokenFromString("f")) }, func(a *refwriter.Automaton) { a.FieldName(rm.T("f")) }},
	{"Annotation(a)", func(w ion.Writer) error { return w.Annotation(ion.NewSymbolTokenFromString("a")) }, func(a *refwriter.Automaton) { a.Annotation(rm.T("a")) }},
	{"Finish", func(w ion.Writer) error { return w.Finish() }, func(a *refwriter.Automaton) { a.Finish() }},
	{"WriteSymbolFromString(t)", func(w ion.Writer) error { return w.WriteSymbolFromString("t") }, func(a *refwriter.Automaton) { a.Value(rm.SymV("t"), "WriteSymbolFromString") }},
	{"WriteString(s)", func(w ion.Writer) error { return w.WriteString("s") }, func(a *refwriter.Automaton) { a.Value(rm.StrV("s"), "WriteString") }},
	{"WriteNull", func(w ion.Writer) error { return w.WriteNull() }, func(a *refwriter.Automaton) { a.Value(rm.NullOf(rm.Null), "WriteNull") }},
	{"WriteSymbol(invalid token)", func(w ion.Writer) error { return w.WriteSymbol(ion.SymbolToken{LocalSID: ion.SymbolIDUnknown}) }, func(a *refwriter.Automaton) {
		a.Impossible = firstNonEmpty(a.Impossible, "WriteSymbol of a token with neither text nor ID succeeded")
	}},
	{"BeginSexp", func(w ion.Writer) error { return w.BeginSexp() }, func(a *refwriter.Automaton) { a.Begin(rm.Sexp) }},
	{"EndSexp", func(w ion.Writer) error { return w.EndSexp() }, func(a *refwriter.Automaton) { a.End(rm.Sexp) }},
}

func firstNonEmpty(a, b string) string {
	if a != "" {
		return a
	}
	return b
}

var c12Configs = []string{"text", "pretty", "binary", "binary-fixed-table"}

func c12Writer(cfg int, buf *bytes.Buffer) ion.Writer {
	switch cfg {
	case 0:
		return ion.NewTextWriter(buf)
	case 1:
		return ion.NewTextWriterOpts(buf, ion.TextWriterPretty)
	case 2:
		return ion.NewBinaryWriter(buf)
	}
	return ion.NewBinaryWriterLST(buf, ion.NewLocalSymbolTable(nil, []string{"f", "a"}))
}

type c12Run struct {
	errs  []bool
	out   []byte
	pan   string
	panAt int
}

func c12Exec(cfg int, seq []int) c12Run {
	var r c12Run
	var buf bytes.Buffer
	r.panAt = -1
	var w ion.Writer
	if p := drive.Safe(func() { w = c12Writer(cfg, &buf) }); p != "" {
		r.pan, r.panAt = p, -1
		return r
	}
	for i, k := range seq {
		var err error
		if p := drive.Safe(func() { err = c12Alphabet[k].do(w) }); p != "" {
			r.pan, r.panAt = p, i
			return r
		}
		r.errs = append(r.errs, err != nil)
	}
	r.out = buf.Bytes()
	return r
}

func c12Body(c *mc.Ctx) {
	maxLen := 5
	if c.Tier == "thorough" {
		maxLen = 6
	}
	cfg := c.Pick("config", len(c12Configs))
	var seq []int
	for i := 0; i < maxLen; i++ {
		var k int
		if i == 0 {
			k = c.Shard("call", len(c12Alphabet)+1)
		} else {
			k = c.Pick("call", len(c12Alphabet)+1)
		}
		if k == 0 {
			break
		}
		seq = append(seq, k-1)
	}
	finishIdx := 7
	seq = append(seq, finishIdx) // the final Finish
	c.Case(func() string {
		var names []string
		for _, k := range seq {
			names = append(names, c12Alphabet[k].name)
		}
		return fmt.Sprintf("config=%s calls=[%s]", c12Configs[cfg], strings.Join(names, ", "))
	})
	c.Class(c12Configs[cfg])
	r := c12Exec(cfg, seq)
	c.Step(len(seq))
	if r.pan != "" {
		c.Fail("panic", drive.PanicSite(r.pan), "call #%d panicked: %s", r.panAt, r.pan)
		return
	}
	// sticky errors: after the first failing non-Finish call everything fails
	firstErr := -1
	for i, e := range r.errs {
		if e && seq[i] != finishIdx && firstErr < 0 {
			firstErr = i
		}
		if firstErr >= 0 && i > firstErr && !e {
			c.Fail("not-sticky", c12Configs[cfg]+":"+c12Alphabet[seq[firstErr]].name+"->"+c12Alphabet[seq[i]].name,
				"call #%d %s returned an error but later call #%d %s returned nil", firstErr, c12Alphabet[seq[firstErr]].name, i, c12Alphabet[seq[i]].name)
			return
		}
	}
	// determinism
	r2 := c12Exec(cfg, seq)
	if r2.pan != r.pan || !bytes.Equal(r.out, r2.out) || fmt.Sprint(r.errs) != fmt.Sprint(r2.errs) {
		c.Fail("nondeterministic", c12Configs[cfg], "same call sequence gave %q/%v then %q/%v", r.out, r.errs, r2.out, r2.errs)
		return
	}
	c.Observe(fmt.Sprint(r.errs), fmt.Sprintf("%x", clipBytes(r.out, 64)))
	finalOK := !r.errs[len(r.errs)-1]
	if !finalOK {
		// nothing is promised about the bytes
		return
	}
	var a refwriter.Automaton
	for i, k := range seq {
		if !r.errs[i] {
			c12Alphabet[k].model(&a)
		}
	}
	if a.Impossible != "" {
		c.Fail("invalid-output", c12Configs[cfg]+":impossible-success", "final Finish returned nil although %s", a.Impossible)
		return
	}
	mode := 0
	if cfg >= 2 {
		mode = 2
	}
	got, _, err := refDecode(mode, r.out, nil)
	if err != nil {
		c.Fail("invalid-output", c12Configs[cfg]+":invalid", "final Finish returned nil but the bytes %q are not valid Ion: %v", clipBytes(r.out, 120), err)
		return
	}
	if df := rm.DiffStreams(a.Values, got); df != "" {
		c.Fail("value-mismatch", c12Configs[cfg]+":"+diffKey(df), "successful calls denote %s, bytes denote %s (%s); bytes %q", rm.StreamString(a.Values), rm.StreamString(got), df, clipBytes(r.out, 120))
		return
	}
	c.Nontrivial()
}

func init() {
	mc.Register(&mc.Check{
		ID:    "C12",
		Title: "Any Writer call sequence ends in a correct stream or an error",
		Rule: "EVERY call sequence of length <= L over a 14-call alphabet {WriteInt(1), WriteString, WriteSymbolFromString(t), WriteNull, WriteSymbol(token with neither text nor ID), FieldName(f), Annotation(a), BeginList/EndList, BeginSexp/EndSexp, BeginStruct/EndStruct, Finish} followed by a final Finish, x 4 writer configurations {text, pretty, binary growing table, binary fixed table lacking t}, on the real Writers. " +
			"Oracle from observed return values only: no panic; after the first failing non-Finish call every later call fails; the same sequence twice gives identical bytes and results; when the final Finish returns nil the independent decoder accepts the bytes and they equal the stream the reference automaton builds from the successful calls (earlier Finish batches included). " +
			"non-trivial = final Finish returned nil and the decoded bytes were compared with the automaton; distinct = distinct (config, per-call error pattern, output bytes) digests",
		Bounds:      map[string]string{"quick": "L=5 (sum 14^k, k<=5 = 579,195 sequences x 4 configs)", "thorough": "L=6 (8,108,731 sequences x 4 configs)"},
		Assumptions: []string{"nil *big.Int / *Decimal arguments are Go-level misuse, not Writer calls, and are outside the alphabet", "refwriter automaton (Appendix A.2) and the independent decoders are the trusted reference"},
		Body:        c12Body,
		Tiers:       map[string]mc.Tier{"quick": {}, "thorough": {}},
	})
}
