package checks

import (
	"bytes"
	"fmt"
	"math/big"
	"strings"

	"github.com/amzn/ion-go/ion"

	"verif/internal/drive"
	"verif/internal/mc"
	rm "verif/internal/refmodel"
	"verif/internal/refwriter"
)

// C12 — any Writer call sequence ends in a correct stream or an error.

type wcall struct {
	name  string
	do    func(w ion.Writer) error
	model func(a *refwriter.Automaton)
}

var c12Alphabet = []wcall{
	{"WriteInt(1)", func(w ion.Writer) error { return w.WriteInt(1) }, func(a *refwriter.Automaton) { a.Value(rm.IntV(1), "WriteInt") }},
	{"BeginList", func(w ion.Writer) error { return w.BeginList() }, func(a *refwriter.Automaton) { a.Begin(rm.List) }},
	{"EndList", func(w ion.Writer) error { return w.EndList() }, func(a *refwriter.Automaton) { a.End(rm.List) }},
	{"BeginStruct", func(w ion.Writer) error { return w.BeginStruct() }, func(a *refwriter.Automaton) { a.Begin(rm.Struct) }},
	{"EndStruct", func(w ion.Writer) error { return w.EndStruct() }, func(a *refwriter.Automaton) { a.End(rm.Struct) }},
	{"FieldName(f)", func(w ion.Writer) error { return w.FieldName(ion.NewSymbolTokenFromString("f")) }, func(a *refwriter.Automaton) { a.FieldName(rm.T("f")) }},
	{"Annotation(a)", func(w ion.Writer) error { return w.Annotation(ion.NewSymbolTokenFromString("a")) }, func(a *refwriter.Automaton) { a.Annotation(rm.T("a")) }},
	{"Finish", func(w ion.Writer) error { return w.Finish() }, func(a *refwriter.Automaton) { a.Finish() }},
	{"WriteSymbolFromString(t)", func(w ion.Writer) error { return w.WriteSymbolFromString("t") }, func(a *refwriter.Automaton) { a.Value(rm.SymV("t"), "WriteSymbolFromString") }},
	{"WriteString(s)", func(w ion.Writer) error { return w.WriteString("s") }, func(a *refwriter.Automaton) { a.Value(rm.StrV("s"), "WriteString") }},
	{"WriteNull", func(w ion.Writer) error { return w.WriteNull() }, func(a *refwriter.Automaton) { a.Value(rm.NullOf(rm.Null), "WriteNull") }},
	{"WriteSymbol(invalid token)", func(w ion.Writer) error { return w.WriteSymbol(ion.SymbolToken{LocalSID: ion.SymbolIDUnknown}) }, func(a *refwriter.Automaton) {
		a.Impossible = firstNonEmpty(a.Impossible, "WriteSymbol of a token with neither text nor ID succeeded")
	}},
	{"BeginSexp", func(w ion.Writer) error { return w.BeginSexp() }, func(a *refwriter.Automaton) { a.Begin(rm.Sexp) }},
	{"EndSexp", func(w ion.Writer) error { return w.EndSexp() }, func(a *refwriter.Automaton) { a.End(rm.Sexp) }},
	// --- the rest of the interface (layer 1 only; the first c12Core entries are layer 0) ---
	{"WriteClob(c)", func(w ion.Writer) error { return w.WriteClob([]byte("c")) }, func(a *refwriter.Automaton) { a.Value(rm.ClobV([]byte("c")), "WriteClob") }},
	{"WriteBlob(b)", func(w ion.Writer) error { return w.WriteBlob([]byte("b")) }, func(a *refwriter.Automaton) { a.Value(rm.BlobV([]byte("b")), "WriteBlob") }},
	{"WriteBool(true)", func(w ion.Writer) error { return w.WriteBool(true) }, func(a *refwriter.Automaton) { a.Value(rm.BoolV(true), "WriteBool") }},
	{"WriteFloat(1.5)", func(w ion.Writer) error { return w.WriteFloat(1.5) }, func(a *refwriter.Automaton) { a.Value(rm.FloatV(1.5), "WriteFloat") }},
	{"WriteDecimal(1.5)", func(w ion.Writer) error { return w.WriteDecimal(ion.NewDecimal(big.NewInt(15), -1, false)) }, func(a *refwriter.Automaton) {
		a.Value(rm.DecV(big.NewInt(15), -1, false), "WriteDecimal")
	}},
	{"WriteTimestamp(2000T)", func(w ion.Writer) error { return w.WriteTimestamp(drive.IonTimestamp(c12TS)) }, func(a *refwriter.Automaton) { a.Value(rm.TSV(c12TS), "WriteTimestamp") }},
	{"WriteNullType(list)", func(w ion.Writer) error { return w.WriteNullType(ion.ListType) }, func(a *refwriter.Automaton) { a.Value(rm.NullOf(rm.List), "WriteNullType") }},
	{"WriteBigInt(2^70)", func(w ion.Writer) error { return w.WriteBigInt(new(big.Int).Lsh(big.NewInt(1), 70)) }, func(a *refwriter.Automaton) {
		a.Value(rm.BigV(new(big.Int).Lsh(big.NewInt(1), 70)), "WriteBigInt")
	}},
	{"WriteUint(7)", func(w ion.Writer) error { return w.WriteUint(7) }, func(a *refwriter.Automaton) { a.Value(rm.IntV(7), "WriteUint") }},
	{"WriteSymbol(u)", func(w ion.Writer) error { return w.WriteSymbol(ion.NewSymbolTokenFromString("u")) }, func(a *refwriter.Automaton) { a.Value(rm.SymV("u"), "WriteSymbol") }},
	// payloads of 64 bytes and more are kept by reference until the batch is emitted
	{"WriteBlob(70 bytes)", func(w ion.Writer) error { return w.WriteBlob(c12Big70) }, func(a *refwriter.Automaton) { a.Value(rm.BlobV(c12Big70), "WriteBlob") }},
	{"WriteClob(100 bytes)", func(w ion.Writer) error { return w.WriteClob(c12Big100) }, func(a *refwriter.Automaton) { a.Value(rm.ClobV(c12Big100), "WriteClob") }},
	{"WriteBigInt(2^520)", func(w ion.Writer) error { return w.WriteBigInt(new(big.Int).Lsh(big.NewInt(1), 520)) }, func(a *refwriter.Automaton) {
		a.Value(rm.BigV(new(big.Int).Lsh(big.NewInt(1), 520)), "WriteBigInt")
	}},
	{"Annotations(a,b)", func(w ion.Writer) error {
		return w.Annotations(ion.NewSymbolTokenFromString("a"), ion.NewSymbolTokenFromString("b"))
	}, func(a *refwriter.Automaton) { a.Annotation(rm.T("a")); a.Annotation(rm.T("b")) }},
}

const c12Core = 14

var c12Big70 = bytes.Repeat([]byte("x"), 70)
var c12Big100 = bytes.Repeat([]byte("c"), 100)

var c12TS = rm.TS{Year: 2000, Month: 1, Day: 1, Prec: rm.PYear}

func firstNonEmpty(a, b string) string {
	if a != "" {
		return a
	}
	return b
}

var c12Configs = []string{"text", "pretty", "binary", "binary-fixed-table", "text-quiet-finish"}

func c12Writer(cfg int, buf *bytes.Buffer) ion.Writer {
	switch cfg {
	case 0:
		return ion.NewTextWriter(buf)
	case 1:
		return ion.NewTextWriterOpts(buf, ion.TextWriterPretty)
	case 2:
		return ion.NewBinaryWriter(buf)
	case 4:
		return ion.NewTextWriterOpts(buf, ion.TextWriterQuietFinish)
	}
	return ion.NewBinaryWriterLST(buf, ion.NewLocalSymbolTable(nil, []string{"f", "a"}))
}

type c12Run struct {
	errs  []bool
	out   []byte
	pan   string
	panAt int
}

func c12Exec(cfg int, seq []int) c12Run {
	var r c12Run
	var buf bytes.Buffer
	r.panAt = -1
	var w ion.Writer
	if p := drive.Safe(func() { w = c12Writer(cfg, &buf) }); p != "" {
		r.pan, r.panAt = p, -1
		return r
	}
	for i, k := range seq {
		var err error
		if p := drive.Safe(func() { err = c12Alphabet[k].do(w) }); p != "" {
			r.pan, r.panAt = p, i
			return r
		}
		r.errs = append(r.errs, err != nil)
	}
	r.out = buf.Bytes()
	return r
}

func c12Body(c *mc.Ctx) {
	maxLen := 5
	if c.Tier == "thorough" {
		maxLen = 6
	}
	cfg := c.Pick("config", len(c12Configs))
	// layer 0: the 14 protocol-relevant calls at full length; layer 1: the whole interface, one call shorter
	nAlpha := c12Core
	if c.Pick("alphabet", 2) == 1 {
		nAlpha = len(c12Alphabet)
		maxLen--
	}
	var seq []int
	for i := 0; i < maxLen; i++ {
		var k int
		if i == 0 {
			k = c.Shard("call", nAlpha+1)
		} else {
			k = c.Pick("call", nAlpha+1)
		}
		if k == 0 {
			break
		}
		seq = append(seq, k-1)
	}
	finishIdx := 7
	seq = append(seq, finishIdx) // the final Finish
	c.Case(func() string {
		var names []string
		for _, k := range seq {
			names = append(names, c12Alphabet[k].name)
		}
		return fmt.Sprintf("config=%s calls=[%s]", c12Configs[cfg], strings.Join(names, ", "))
	})
	c.Class(c12Configs[cfg])
	r := c12Exec(cfg, seq)
	c.Step(len(seq))
	if r.pan != "" {
		c.Fail("panic", drive.PanicSite(r.pan), "call #%d panicked: %s", r.panAt, r.pan)
		return
	}
	// sticky errors: after the first failing non-Finish call everything fails
	firstErr := -1
	for i, e := range r.errs {
		if e && seq[i] != finishIdx && firstErr < 0 {
			firstErr = i
		}
		if firstErr >= 0 && i > firstErr && !e {
			c.Fail("not-sticky", c12Configs[cfg]+":"+c12Alphabet[seq[firstErr]].name+"->"+c12Alphabet[seq[i]].name,
				"call #%d %s returned an error but later call #%d %s returned nil", firstErr, c12Alphabet[seq[firstErr]].name, i, c12Alphabet[seq[i]].name)
			return
		}
	}
	// determinism
	r2 := c12Exec(cfg, seq)
	if r2.pan != r.pan || !bytes.Equal(r.out, r2.out) || fmt.Sprint(r.errs) != fmt.Sprint(r2.errs) {
		c.Fail("nondeterministic", c12Configs[cfg], "same call sequence gave %q/%v then %q/%v", r.out, r.errs, r2.out, r2.errs)
		return
	}
	c.Observe(fmt.Sprint(r.errs), fmt.Sprintf("%x", clipBytes(r.out, 64)))
	finalOK := !r.errs[len(r.errs)-1]
	if !finalOK {
		// nothing is promised about the bytes
		return
	}
	var a refwriter.Automaton
	for i, k := range seq {
		if !r.errs[i] {
			c12Alphabet[k].model(&a)
		}
	}
	if a.Impossible != "" {
		c.Fail("invalid-output", c12Configs[cfg]+":impossible-success", "final Finish returned nil although %s", a.Impossible)
		return
	}
	mode := 0
	if cfg == 2 || cfg == 3 {
		mode = 2
	}
	got, _, err := refDecode(mode, r.out, nil)
	if err != nil {
		c.Fail("invalid-output", c12Configs[cfg]+":invalid", "final Finish returned nil but the bytes %q are not valid Ion: %v", clipBytes(r.out, 120), err)
		return
	}
	if df := rm.DiffStreams(a.Values, got); df != "" {
		c.Fail("value-mismatch", c12Configs[cfg]+":"+diffKey(df), "successful calls denote %s, bytes denote %s (%s); bytes %q", rm.StreamString(a.Values), rm.StreamString(got), df, clipBytes(r.out, 120))
		return
	}
	c.Nontrivial()
}

func init() {
	mc.Register(&mc.Check{
		ID:    "C12",
		Title: "Any Writer call sequence ends in a correct stream or an error",
		Rule: "EVERY call sequence of length <= L over a 14-call core alphabet {WriteInt(1), WriteString, WriteSymbolFromString(t), WriteNull, WriteSymbol(token with neither text nor ID), FieldName(f), Annotation(a), BeginList/EndList, BeginSexp/EndSexp, BeginStruct/EndStruct, Finish}, and every sequence of length <= L-1 over the whole 28-call interface (adds WriteClob, WriteBlob, a 70-byte blob, a 100-byte clob and 2^520 (payloads the binary writer keeps by reference), WriteBool, WriteFloat, WriteDecimal, WriteTimestamp, WriteNullType, WriteBigInt, WriteUint, WriteSymbol(token), Annotations(a,b)), each followed by a final Finish, x 5 writer configurations {text, pretty, text with TextWriterQuietFinish, binary growing table, binary fixed table lacking t/u/b}, on the real Writers. " +
			"Oracle from observed return values only: no panic; after the first failing non-Finish call every later call fails; the same sequence twice gives identical bytes and results; when the final Finish returns nil the independent decoder accepts the bytes and they equal the stream the reference automaton builds from the successful calls (earlier Finish batches included). " +
			"non-trivial = final Finish returned nil and the decoded bytes were compared with the automaton; distinct = distinct (config, per-call error pattern, output bytes) digests",
		Bounds:      map[string]string{"quick": "L=5 (579,195 core + 637,421 full-interface sequences, x 5 configs)", "thorough": "L=6 (8,108,731 core + 17,847,789 full-interface sequences, x 5 configs)"},
		Assumptions: []string{"nil *big.Int / *Decimal arguments are Go-level misuse, not Writer calls, and are outside the alphabet", "refwriter automaton (Appendix A.2) and the independent decoders are the trusted reference"},
		Body:        c12Body,
		Tiers:       map[string]mc.Tier{"quick": {}, "thorough": {}},
	})
}
