package checks

import (
	"bytes"
	"context"
	"fmt"
	"math/big"
	"os"
	"os/exec"
	"path/filepath"
	"strings"
	"time"

	"verif/internal/mc"
	"verif/internal/refbin"
	rm "verif/internal/refmodel"
	"verif/internal/refsym"
	"verif/internal/reftext"
)

// C20 — the ion-go process command is a faithful transcoder.

var c20Formats = []string{"text", "pretty", "binary", "events", "none"}

func c20Docs() []doc {
	var out []doc
	add := func(name string, vals ...*rm.Value) { out = append(out, doc{name, vals}) }
	for i, s := range genScalars {
		add(fmt.Sprintf("scalar%d", i), s)
	}
	fn := genFields
	for i, r := range genReps {
		add(fmt.Sprintf("rep%d-ann", i), r.A("a", "b c"))
		add(fmt.Sprintf("rep%d-struct", i), rm.StructV(r.FS(fn[i%len(fn)]), r.A("x").F("g")), rm.IntV(1))
		add(fmt.Sprintf("rep%d-nested", i), rm.ListV(rm.SexpV(r, rm.StructV(r.F("k"))), r), r)
	}
	for t := rm.Null; t <= rm.Struct; t++ {
		add(fmt.Sprintf("null-%v", t), rm.NullOf(t).A("n"), rm.ListV(rm.NullOf(t)), rm.StructV(rm.NullOf(t).F("f")))
	}
	for i, s := range genShapes3 {
		add(fmt.Sprintf("shape%d", i), s, rm.IntV(7))
	}
	// a long payload (kept by reference by readers and writers) next to a short one of the same type
	long := func(n int, b byte) []byte {
		out := make([]byte, n)
		for i := range out {
			out[i] = b + byte(i%7)
		}
		return out
	}
	pairs := [][2]*rm.Value{
		{rm.ClobV(long(70, 'A')), rm.ClobV([]byte("dd"))},
		{rm.ClobV(long(200, 'a')), rm.ClobV(long(70, 'N'))},
		{rm.BlobV(long(64, 1)), rm.BlobV([]byte{9, 8, 7})},
		{rm.StrV(string(long(70, 'S'))), rm.StrV("tt")},
		{rm.SymV(string(long(70, 's'))), rm.SymV("u")},
		{rm.BigV(new(big.Int).Lsh(big.NewInt(5), 600)), rm.BigV(new(big.Int).Lsh(big.NewInt(3), 520))},
	}
	for i, p := range pairs {
		add(fmt.Sprintf("long-short%d", i), p[0], p[1], rm.ListV(p[1], p[0]))
		add(fmt.Sprintf("short-long%d", i), p[1], p[0], rm.StructV(p[0].F("f"), p[1].F("g")))
	}
	return out
}

var c20DocList = c20Docs()

type cliResult struct {
	stdout, stderr, outFile, errFile []byte
	exit                             int
	timedOut                         bool
}

func runCLI(format string, input []byte, viaStdin bool) (cliResult, error) {
	cli := os.Getenv("VERIF_CLI")
	scratch := os.Getenv("VERIF_SCRATCH")
	if cli == "" || scratch == "" {
		return cliResult{}, fmt.Errorf("VERIF_CLI / VERIF_SCRATCH not set")
	}
	dir, err := os.MkdirTemp(scratch, "c20-")
	if err != nil {
		return cliResult{}, err
	}
	defer os.RemoveAll(dir)
	outp, errp, inp := filepath.Join(dir, "out"), filepath.Join(dir, "err"), filepath.Join(dir, "in.ion")
	args := []string{"process", "-f", format, "-o", outp, "-e", errp}
	if !viaStdin {
		if err := os.WriteFile(inp, input, 0o644); err != nil {
			return cliResult{}, err
		}
		args = append(args, inp)
	}
	var res cliResult
	for attempt := 0; attempt < 3; attempt++ {
		ctx, cancel := context.WithTimeout(context.Background(), 60*time.Second)
		cmd := exec.CommandContext(ctx, cli, args...)
		if viaStdin {
			cmd.Stdin = bytes.NewReader(input)
		}
		var so, se bytes.Buffer
		cmd.Stdout, cmd.Stderr = &so, &se
		err := cmd.Run()
		timedOut := ctx.Err() != nil
		cancel()
		res = cliResult{stdout: so.Bytes(), stderr: se.Bytes(), timedOut: timedOut}
		if ee, ok := err.(*exec.ExitError); ok {
			res.exit = ee.ExitCode()
		} else if err != nil && !timedOut {
			return res, err
		}
		if !timedOut {
			break
		}
	}
	res.outFile, _ = os.ReadFile(outp)
	res.errFile, _ = os.ReadFile(errp)
	return res, nil
}

type evExpect struct {
	kind  string // CONTAINER_START, CONTAINER_END, SCALAR, STREAM_END
	typ   string
	depth int
	val   *rm.Value // for SCALAR: the bare value
	field *rm.Sym
	ann   []rm.Sym
}

func expectEvents(vals []*rm.Value) []evExpect {
	var out []evExpect
	var walk func(v *rm.Value, depth int)
	walk = func(v *rm.Value, depth int) {
		tn := strings.ToUpper(v.Type.String())
		if v.Type.IsContainer() && !v.Null {
			out = append(out, evExpect{kind: "CONTAINER_START", typ: tn, depth: depth, field: v.Field, ann: v.Annots})
			for _, k := range v.Kids {
				walk(k, depth+1)
			}
			out = append(out, evExpect{kind: "CONTAINER_END", typ: tn, depth: depth})
			return
		}
		bare := v.Clone()
		bare.Annots, bare.Field = nil, nil
		out = append(out, evExpect{kind: "SCALAR", typ: tn, depth: depth, val: bare, field: v.Field, ann: v.Annots})
	}
	for _, v := range vals {
		walk(v, 0)
	}
	return append(out, evExpect{kind: "STREAM_END", depth: 0})
}

func fieldOf(st *rm.Value, name string) *rm.Value {
	for _, k := range st.Kids {
		if k.Field != nil && k.Field.HasText && k.Field.Text == name {
			return k
		}
	}
	return nil
}

func tokenText(tok *rm.Value) (string, bool) {
	if tok == nil || tok.Type != rm.Struct {
		return "", false
	}
	t := fieldOf(tok, "Text")
	if t == nil || t.Null || t.Type != rm.String {
		return "", false
	}
	return t.Text, true
}

// checkEvents validates an event stream against the expectation; returns "" or a description.
func checkEvents(out []byte, want []evExpect) string {
	vals, err := reftext.Parse(out)
	if err != nil {
		return fmt.Sprintf("event stream is not valid Ion text: %v", err)
	}
	if len(vals) == 0 || vals[0].Type != rm.Symbol || vals[0].Sym.Text != "$ion_event_stream" {
		return "event stream does not start with $ion_event_stream"
	}
	evs := vals[1:]
	if len(evs) != len(want) {
		return fmt.Sprintf("%d events, expected %d", len(evs), len(want))
	}
	for i, w := range want {
		e := evs[i]
		if e.Type != rm.Struct {
			return fmt.Sprintf("event #%d is not a struct", i)
		}
		et := fieldOf(e, "event_type")
		if et == nil || et.Type != rm.Symbol || et.Sym.Text != w.kind {
			return fmt.Sprintf("event #%d: event_type %v, expected %s", i, et, w.kind)
		}
		d := fieldOf(e, "depth")
		if d == nil || d.Type != rm.Int || d.Int.Int64() != int64(w.depth) {
			return fmt.Sprintf("event #%d (%s): depth %v, expected %d", i, w.kind, d, w.depth)
		}
		if w.kind == "STREAM_END" {
			continue
		}
		it := fieldOf(e, "ion_type")
		if it == nil || it.Type != rm.Symbol || it.Sym.Text != w.typ {
			return fmt.Sprintf("event #%d (%s): ion_type %v, expected %s", i, w.kind, it, w.typ)
		}
		if w.kind == "CONTAINER_END" {
			continue
		}
		fnv := fieldOf(e, "field_name")
		if (w.field != nil) != (fnv != nil) {
			return fmt.Sprintf("event #%d: field_name presence %v, expected %v", i, fnv != nil, w.field != nil)
		}
		if w.field != nil && w.field.HasText {
			if t, ok := tokenText(fnv); !ok || t != w.field.Text {
				return fmt.Sprintf("event #%d: field_name %v, expected %q", i, fnv, w.field.Text)
			}
		}
		av := fieldOf(e, "annotations")
		na := 0
		if av != nil {
			na = len(av.Kids)
		}
		if na != len(w.ann) {
			return fmt.Sprintf("event #%d: %d annotations, expected %d", i, na, len(w.ann))
		}
		for j, a := range w.ann {
			if a.HasText {
				if t, ok := tokenText(av.Kids[j]); !ok || t != a.Text {
					return fmt.Sprintf("event #%d: annotation %d is %v, expected %q", i, j, av.Kids[j], a.Text)
				}
			}
		}
		if w.kind == "SCALAR" {
			vt := fieldOf(e, "value_text")
			if vt == nil || vt.Type != rm.String {
				return fmt.Sprintf("event #%d: no value_text", i)
			}
			pv, err := reftext.Parse([]byte(vt.Text))
			if err != nil || len(pv) != 1 {
				return fmt.Sprintf("event #%d: value_text %q does not parse as one Ion value: %v", i, vt.Text, err)
			}
			got := pv[0]
			if got.Type == rm.Symbol && !got.Null && !got.Sym.HasText && got.Sym.SID == 0 && w.val.Type == rm.Symbol && !w.val.Sym.HasText {
				continue
			}
			if df := rm.Diff(w.val, got); df != "" {
				return fmt.Sprintf("event #%d: value_text %q denotes %s, expected %s (%s)", i, vt.Text, got, w.val, df)
			}
		}
	}
	return ""
}

func c20Body(c *mc.Ctx) {
	invalid := c.Pick("input-class", 2) == 1
	fi := c.Pick("format", len(c20Formats))
	viaStdin := false
	if c.Tier == "thorough" {
		viaStdin = c.Pick("via-stdin", 2) == 1
	}
	format := c20Formats[fi]
	var input []byte
	var vals []*rm.Value
	what := ""
	if invalid {
		n := len(c07Text) + len(c07Binary)
		i := c.Shard("bad-input", n)
		if c.Tier != "thorough" {
			viaStdin = (i+fi)%2 == 1
		}
		if i < len(c07Text) {
			input = []byte(c07Text[i])
		} else {
			input = append(append([]byte{}, refbin.BVM...), c07Binary[i-len(c07Text)]...)
		}
		what = "invalid"
	} else {
		di := c.Shard("doc", len(c20DocList))
		d := c20DocList[di]
		if c.Tier != "thorough" {
			viaStdin = (di+fi)%2 == 1 // quick: each (document, format) through one of the two routes
		}
		vals = d.vals
		if hasSystemShape(vals) || !allRepresentable(vals) {
			c.Skip("system value shape / not representable")
			return
		}
		if c.Pick("input-format", 2) == 1 {
			input = refbin.EncodeStream(rm.Canon{}, vals)
			what = "binary"
		} else {
			input = reftext.Print(rm.Canon{}, vals)
			what = "text"
		}
	}
	c.Case(func() string {
		return fmt.Sprintf("process -f %s stdin=%v input(%s)=%q", format, viaStdin, what, clipBytes(input, 100))
	})
	c.Class(format + "/" + what)
	if invalid {
		// only inputs the reference rejects count
		var rerr error
		if len(input) >= 4 && input[0] == 0xE0 {
			_, rerr = refbin.DecodeRaw(input)
		} else {
			_, rerr = reftext.Parse(input)
			if rerr == nil {
				raw, _ := reftext.Parse(input)
				_, rerr = refsym.Resolve(raw, nil)
			}
		}
		if rerr == nil || refbin.IsUnsure(rerr) {
			c.Skip("input is valid after all")
			return
		}
	}
	res, err := runCLI(format, input, viaStdin)
	c.Step(1)
	if err != nil {
		c.Fail("oracle", "cannot-run", "%v", err)
		return
	}
	if res.timedOut {
		c.Fail("hang", format, "ion-go process did not finish within 60 s (three attempts)")
		return
	}
	all := string(res.stderr) + string(res.stdout)
	if strings.Contains(all, "panic:") || strings.Contains(all, "goroutine ") || strings.Contains(all, "fatal error:") || res.exit == 2 {
		c.Fail("panic", format+":"+firstPanicLine(all), "ion-go process crashed (exit %d): %s", res.exit, clipStr(all, 400))
		return
	}
	if invalid {
		ents, perr := reftext.Parse(res.errFile)
		okEntry := false
		if perr == nil {
			for _, e := range ents {
				if e.Type == rm.Struct && fieldOf(e, "error_type") != nil && fieldOf(e, "message") != nil {
					okEntry = true
				}
			}
		}
		if !okEntry {
			c.Fail("missing-error", format+":no-report", "invalid input produced no well-formed error report entry (report %q, parse error %v)", clipBytes(res.errFile, 200), perr)
			return
		}
		c.Observe("reported")
		c.Nontrivial()
		return
	}
	if len(bytes.TrimSpace(res.errFile)) != 0 {
		c.Fail("unexpected-error", format+":report", "valid input produced an error report: %s", clipBytes(res.errFile, 300))
		return
	}
	switch format {
	case "none":
		if len(res.outFile) != 0 {
			c.Fail("invalid-output", "none", "-f none wrote %q", clipBytes(res.outFile, 100))
			return
		}
	case "events":
		if d := checkEvents(res.outFile, expectEvents(vals)); d != "" {
			c.Fail("invalid-output", "events", "%s; output %q", d, clipBytes(res.outFile, 300))
			return
		}
	default:
		mode := 0
		if format == "binary" {
			mode = 2
		}
		got, _, derr := refDecode(mode, res.outFile, nil)
		if derr != nil {
			c.Fail("invalid-output", format+":invalid", "output %q is not valid Ion: %v", clipBytes(res.outFile, 200), derr)
			return
		}
		if df := rm.DiffStreams(vals, got); df != "" {
			c.Fail("value-mismatch", format+":"+diffKey(df), "input denotes %s, output denotes %s: %s", rm.StreamString(vals), rm.StreamString(got), df)
			return
		}
	}
	c.Observe(fmt.Sprintf("%x", clipBytes(res.outFile, 48)))
	c.Nontrivial()
}

func firstPanicLine(s string) string {
	for _, ln := range strings.Split(s, "\n") {
		if strings.HasPrefix(ln, "panic:") || strings.HasPrefix(ln, "fatal error:") {
			if len(ln) > 80 {
				ln = ln[:80]
			}
			return ln
		}
	}
	return "crash"
}

func clipStr(s string, n int) string {
	if len(s) > n {
		return s[:n]
	}
	return s
}

func c20Pre(tier, scratch string) ([]string, error) {
	bin := filepath.Join(scratch, "ion-go-cli")
	cmd := exec.Command("go", "build", "-o", bin, "./cmd/ion-go")
	cmd.Dir = "/repo"
	cmd.Env = append(os.Environ(), "GOFLAGS=-mod=mod", "GOPROXY=off", "GOSUMDB=off", "GOTOOLCHAIN=local")
	if out, err := cmd.CombinedOutput(); err != nil {
		return nil, fmt.Errorf("building cmd/ion-go: %v\n%s", err, out)
	}
	return []string{"VERIF_CLI=" + bin}, nil
}

func init() {
	mc.Register(&mc.Check{
		ID:    "C20",
		Title: "The ion-go process command is a faithful transcoder",
		Rule: "the command is rebuilt from /repo/cmd/ion-go and run as a subprocess on: every catalogue scalar, every token-class representative annotated / as struct field under each field-name class / nested in list-sexp-struct, every typed null annotated / in a list / in a struct, every container shape <=3 nodes; each in reference-printed text and reference-encoded binary x output formats {text, pretty, binary, events, none} x {file argument, stdin}; plus ~250 spec-invalid inputs of the C07 catalogue x the same formats and input routes. " +
			"Oracle: no Go panic / fatal error in stdout+stderr and no exit status 2; valid input: empty error report, text/pretty/binary output decoded by the independent decoder equals the input's values, events output parses as Ion text, starts with $ion_event_stream and matches the expected event list exactly (one SCALAR per scalar with ion_type, field_name, annotations and a value_text that parses back to the value; CONTAINER_START/END pairs with depth; one STREAM_END), none writes nothing; invalid input: the error report holds at least one well-formed entry. " +
			"non-trivial = the subprocess ran and every clause for its format was evaluated; distinct = distinct (format, input class, output bytes) digests",
		Bounds:      map[string]string{"quick": "every (document, format) pair through one input route (alternating file/stdin)", "thorough": "both routes for every pair"},
		Assumptions: []string{"a 60 s per-run timeout (three attempts) is the only wall-clock element and is a hang backstop, not a timing oracle"},
		Body:        c20Body,
		Pre:         c20Pre,
		Tiers:       map[string]mc.Tier{"quick": {}, "thorough": {}},
	})
}
