package checks

import (
	"fmt"
	"math/big"
	"reflect"

	"github.com/amzn/ion-go/ion"

	"verif/internal/drive"
	"verif/internal/refbin"
	rm "verif/internal/refmodel"
)

// c18FreshTypes makes the struct-type scenario mint a new reflect type per run (race pass).
var c18FreshTypes bool
var c18TypeSeq int

// c18Reset puts package ion back into the state of a fresh process (instrumented builds only).
func c18Reset() {
	if ion.VerifReset != nil {
		ion.VerifReset()
	}
}

// More scenarios: formatting and parsing helpers run from several threads at once, and a
// struct type none of the threads has seen before.
func init() {
	tw := func(pretty bool, str string, lob []byte, f float64, dec string) func() string {
		return func() string {
			var out pointWriter
			var w ion.Writer
			if pretty {
				w = ion.NewTextWriterOpts(&out, ion.TextWriterPretty)
			} else {
				w = ion.NewTextWriter(&out)
			}
			w.WriteString(str)
			w.WriteSymbolFromString(str)
			w.BeginStruct()
			w.FieldName(ion.NewSymbolTokenFromString(str))
			w.WriteClob(lob)
			w.FieldName(ion.NewSymbolTokenFromString("b"))
			w.WriteBlob(lob)
			w.EndStruct()
			w.WriteFloat(f)
			w.WriteDecimal(ion.MustParseDecimal(dec))
			w.WriteInt(-1234567890123)
			w.WriteBigInt(new(big.Int).Lsh(big.NewInt(3), 90))
			err := w.Finish()
			return fmt.Sprintf("%s %v", out.buf.Bytes(), err)
		}
	}
	c18Scenarios = append(c18Scenarios,
		c18Scenario{"two text writers escaping control characters and formatting numbers + a text reader decoding escapes", func() []func() string {
			return []func() string{
				tw(false, "a\x01é\n\"", []byte{0xff, 0x00, '"', 'x'}, 1e300, "1.50"),
				tw(true, "\x7f\t'b\\", []byte{0x80, 0x1f}, -2.5e-7, "-0d3"),
				func() string {
					return c18Read([]byte(`"\x01ሴ\U0001F600\n" 'a\x02' {{"\xff\0"}} {{ /w== }} 1.5e0 2d1 0x1F -0b101 2000-01-01T00:00:00.250-08:00 '''l1''' '''l2'''`), nil)
				},
			}
		}},
		c18Scenario{"decimals and timestamps parsed, computed and formatted in three threads", func() []func() string {
			dec := func(a, b string) func() string {
				return func() string {
					x, y := ion.MustParseDecimal(a), ion.MustParseDecimal(b)
					sh := x.ShiftL(3)
					return fmt.Sprintf("%v %v %v %v %v %v %v %v", x.Add(y), x.Sub(y), x.Mul(y), x.Cmp(y), sh, sh.ShiftR(5), x.Truncate(2), y.Neg().Abs())
				}
			}
			return []func() string{
				dec("12345.678", "-0.00120"),
				dec("1d100", "9.99999999999999999999d-5"),
				func() string {
					a := ion.MustParseTimestamp("2020-02-29T23:59:59.999+05:30")
					b, err := ion.ParseTimestamp("1999-12-31T")
					return fmt.Sprintf("%v %v %v %v %v", a, b, err, a.GetDateTime().UTC(), a.Equal(b))
				},
			}
		}},
		c18Scenario{"two binary readers decoding timestamps with local offsets + a binary writer of timestamps", func() []func() string {
			ts := func(s string) *rm.Value {
				return rm.TSV(drive.ModelTimestamp(ion.MustParseTimestamp(s)))
			}
			a := refbin.EncodeStream(rm.Canon{}, []*rm.Value{ts("2020-02-29T23:59:59.999+05:30"), ts("2001-01-01T00:00-08:00"), ts("2001T")})
			b := refbin.EncodeStream(rm.Canon{}, []*rm.Value{ts("1999-12-31T23:59:59-08:00"), ts("2010-06-15T12:00+05:30"), ts("2010-06-15T12:00:00.5+01:00")})
			return []func() string{
				func() string { return c18Read(a, nil) },
				func() string { return c18Read(b, nil) },
				func() string {
					var out pointWriter
					w := ion.NewBinaryWriter(&out)
					w.WriteTimestamp(ion.MustParseTimestamp("2020-02-29T23:59:59.999+05:30"))
					w.WriteTimestamp(ion.MustParseTimestamp("2001-01-01T00:00-00:00"))
					err := w.Finish()
					return fmt.Sprintf("%x %v", out.buf.Bytes(), err)
				},
			}
		}},
		c18Scenario{"MarshalText / MarshalBinary / Unmarshal of a struct type none of the threads has seen before", func() []func() string {
			sh, _ := c18Shared()
			// the type is new in every run: under the explorer because package state is reset
			// (VerifReset), in the free-running pass because it is minted afresh
			typ := reflect.TypeOf(c18Item{})
			if c18FreshTypes {
				c18TypeSeq++
				typ = reflect.StructOf([]reflect.StructField{
					{Name: "ID", Type: reflect.TypeOf(""), Tag: reflect.StructTag(fmt.Sprintf(`ion:"id" verif:"%d"`, c18TypeSeq))},
					{Name: "Name", Type: reflect.TypeOf(""), Tag: `ion:"name,symbol"`},
					{Name: "N", Type: reflect.TypeOf([]int(nil)), Tag: `ion:"n"`},
				})
			}
			pv := reflect.New(typ)
			pv.Elem().Field(0).SetString("i1")
			pv.Elem().Field(1).SetString("alpha")
			pv.Elem().Field(2).Set(reflect.ValueOf([]int{1, 2}))
			data := []byte(`{id:"i1",name:alpha,n:[1,2]}`)
			return []func() string{
				func() string { b, err := ion.MarshalText(pv.Elem().Interface()); return fmt.Sprintf("%s %v", b, err) },
				func() string { b, err := ion.MarshalBinary(pv.Interface(), sh); return fmt.Sprintf("%x %v", b, err) },
				func() string {
					x := reflect.New(typ)
					err := ion.Unmarshal(data, x.Interface())
					return fmt.Sprintf("%v %v", x.Elem().Interface(), err)
				},
			}
		}},
	)
}
