package checks

import (
	"fmt"
	"github.com/amzn/ion-go/ion"

	"verif/internal/mc"
	rm "verif/internal/refmodel"
)

// C01 — write-then-read round trip in all writer modes.
func c01Body(c *mc.Ctx) {
	mode := c.Pick("mode", 6)
	vals, class := genValues(c, c.Tier == "thorough")
	c.Class(modeNames[mode] + "/" + class)
	c.Case(func() string { return fmt.Sprintf("mode=%s values=%s", modeNames[mode], rm.StreamString(vals)) })
	c.Family(dollarFamily(vals))
	if !allRepresentable(vals) || hasSystemShape(vals) {
		c.Skip("outside the data model / Go API domain")
		return
	}
	out, calls, failedCall, werr, pan := writeWith(c, mode, vals)
	c.Step(calls)
	if failPanic(c, pan) {
		return
	}
	if werr != nil {
		// "finished without error" is the property's precondition
		c.Skip("writer returned an error at " + failedCall)
		return
	}
	var cat ion.Catalog
	if mode >= 4 {
		cat = ion.NewCatalog(genImport())
	}
	got, rcalls, rerr, pan := readBack(out, cat)
	c.Step(rcalls)
	if failPanic(c, pan) {
		return
	}
	if rerr != nil {
		c.Fail("unexpected-error", modeNames[mode]+":"+errKey(rerr), "reader rejects the writer's own output %q: %v", clipBytes(out, 120), rerr)
		return
	}
	if df := rm.DiffStreams(vals, got); df != "" {
		c.Fail("value-mismatch", modeNames[mode]+":"+diffKey(df), "wrote %s, read %s (%s); bytes %q", rm.StreamString(vals), rm.StreamString(got), df, clipBytes(out, 120))
		return
	}
	c.Observe(fmt.Sprintf("%x", clipBytes(out, 48)), len(out))
	c.Nontrivial()
}

func init() {
	mc.Register(&mc.Check{
		ID:    "C01",
		Title: "Write-then-read round trip preserves every Ion value in all writer modes",
		Rule: "value sequences driven through the real Writer API and read back through the real Reader with every accessor, for each of compact text / pretty text / binary: " +
			"(A) every catalogue scalar x 9 annotation sets x 13 contexts (top, list, sexp, struct under 10 field-name texts); (B) every ordered pair of 42 token-class representatives x 4 contexts; " +
			"(C) every container shape <=4 nodes depth <=3, bare and annotated; (D) payload lengths 0/1/13/14/127/128/16383/16384 x list/sexp/struct, bare and under an annotation wrapper; " +
			"(E) streams with 1..250 distinct symbols as values/annotations/field names; (F, thorough) triples over representatives and shapes; " +
			"plus <=d deviations in Writer entry point (WriteInt/WriteUint/WriteBigInt, WriteSymbol/WriteSymbolFromString, Annotation/Annotations). " +
			"non-trivial = every Writer call and Finish succeeded and the read-back stream was compared; distinct = distinct (mode, case, output bytes) digests",
		Bounds:      map[string]string{"quick": "layers A-E, d<=1", "thorough": "layers A-F, d<=2"},
		Assumptions: []string{"refmodel equality (Appendix A.4) is the oracle", "a top-level struct annotated $ion_symbol_table and a bare top-level symbol $ion_1_0 are system values, not user values, and are excluded"},
		Body:        c01Body,
		Tiers:       map[string]mc.Tier{"quick": {Bound: 1}, "thorough": {Bound: 2}},
	})
}
