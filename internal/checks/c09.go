package checks

import (
	"fmt"
	"strings"

	"github.com/amzn/ion-go/ion"

	"verif/internal/drive"
	"verif/internal/mc"
	"verif/internal/refbin"
	rm "verif/internal/refmodel"
	"verif/internal/refsym"
	"verif/internal/reftext"
)

// C09 — symbol tables assign and resolve symbol IDs as the Ion rules prescribe.

var c09Pool = []refsym.Shared{
	{Name: "t0", Version: 1, Symbols: nil},
	{Name: "t1", Version: 1, Symbols: []string{"a"}},
	{Name: "t2", Version: 1, Symbols: []string{"a", "b"}},
	{Name: "t3", Version: 2, Symbols: []string{"b", "", "c"}},
	{Name: "t4", Version: 1, Symbols: []string{"name", "x", "x"}},
}

var c09Texts = []string{"a", "b", "c", "x", "name", "$ion", "symbols", "zz", "$ion_shared_symbol_table"}
var c09LocalAlpha = []string{"a", "b", "", "name", "x", "q"}

type c09Import struct {
	pool int
	max  int64
}

func (i c09Import) String() string {
	return fmt.Sprintf("%s@%d", c09Pool[i.pool].Name, i.max)
}

// pickImports chooses an import list (each: pool table + adjusted max_id).
func c09PickImports(c *mc.Ctx, maxLen int, first bool) []c09Import {
	var out []c09Import
	for i := 0; i < maxLen; i++ {
		var k int
		if i == 0 && first {
			k = c.Shard("import", len(c09Pool)+1)
		} else {
			k = c.Pick("import", len(c09Pool)+1)
		}
		if k == 0 {
			break
		}
		size := len(c09Pool[k-1].Symbols)
		m := c.Pick("max_id", size+3)
		out = append(out, c09Import{k - 1, int64(m)})
	}
	return out
}

func c09PickLocals(c *mc.Ctx, maxLen int) []string {
	var out []string
	for i := 0; i < maxLen; i++ {
		k := c.Pick("local", len(c09LocalAlpha)+1)
		if k == 0 {
			break
		}
		out = append(out, c09LocalAlpha[k-1])
	}
	return out
}

func c09IonShared(i c09Import) ion.SharedSymbolTable {
	p := c09Pool[i.pool]
	return ion.NewSharedSymbolTable(p.Name, p.Version, p.Symbols).Adjust(uint64(i.max))
}

// c09IonSharedVia adjusts in steps (first padded to size+2, or padded to size+3 and back to its size): the result must be the table
// that one Adjust gives, whatever the table was adjusted to before.
func c09IonSharedVia(i c09Import, via int) ion.SharedSymbolTable {
	p := c09Pool[i.pool]
	t := ion.NewSharedSymbolTable(p.Name, p.Version, p.Symbols)
	switch via {
	case 1:
		t = t.Adjust(uint64(len(p.Symbols) + 2))
	case 2:
		t = t.Adjust(uint64(len(p.Symbols) + 3)).Adjust(uint64(len(p.Symbols)))
	}
	return t.Adjust(uint64(i.max))
}

// refTable builds the reference slot list.
func c09RefTable(imps []c09Import, present []bool, locals []string) *refsym.Table {
	t := refsym.System()
	for k, i := range imps {
		var sh *refsym.Shared
		if present == nil || present[k] {
			sh = &c09Pool[i.pool]
		}
		t.Slots = append(t.Slots, refsym.ImportSlots(sh, i.max)...)
	}
	for _, l := range locals {
		t.Slots = append(t.Slots, refsym.Slot{Text: l, Defined: l != ""})
	}
	return t
}

// c09Compare asks the real table every query and compares with the reference.
// It returns a digest of the answers (used to detect renumbering across Adds).
func c09Compare(c *mc.Ctx, st ion.SymbolTable, ref *refsym.Table, what string) (string, bool) {
	var sb strings.Builder
	fail := func(key, format string, a ...interface{}) (string, bool) {
		c.Fail("value-mismatch", key, what+": "+format, a...)
		return "", false
	}
	var pan string
	ok := true
	pan = drive.Safe(func() {
		if got := st.MaxID(); int64(got) != ref.MaxID() {
			_, ok = fail("MaxID", "MaxID=%d want %d", got, ref.MaxID())
			return
		}
		for id := int64(0); id <= ref.MaxID()+2; id++ {
			text, found := st.FindByID(uint64(id))
			wt, def, in := ref.ByID(id)
			c.Step(2)
			switch {
			case id == 0 || !in:
				if found {
					_, ok = fail("FindByID-range", "FindByID(%d) found %q but the ID is outside 1..%d", id, text, ref.MaxID())
					return
				}
			case def:
				if !found || text != wt {
					_, ok = fail("FindByID", "FindByID(%d)=(%q,%v) want %q", id, text, found, wt)
					return
				}
			default:
				if id >= 1 && ref.Slots[id-1].Padding && found {
					_, ok = fail("FindByID-padding", "FindByID(%d)=(%q,true) for a padding slot of an import (text must be undefined)", id, text)
					return
				}
				// undefined slot: the text must not be some other symbol's text ("" is ion-go's padding value)
				if text != "" {
					_, ok = fail("FindByID-undefined", "FindByID(%d)=%q for a slot with undefined text", id, text)
					return
				}
			}
			tok, err := ion.NewSymbolTokenBySID(st, id)
			switch {
			case !in:
				if err == nil {
					_, ok = fail("TokenBySID-range", "NewSymbolTokenBySID(%d) accepted an ID above MaxID %d", id, ref.MaxID())
					return
				}
			case err != nil:
				_, ok = fail("TokenBySID", "NewSymbolTokenBySID(%d): %v", id, err)
				return
			case def:
				if tok.Text == nil || *tok.Text != wt || tok.LocalSID != id {
					_, ok = fail("TokenBySID", "NewSymbolTokenBySID(%d)=%v want text %q", id, tok.String(), wt)
					return
				}
			default:
				if id >= 1 && ref.Slots[id-1].Padding && tok.Text != nil {
					_, ok = fail("TokenBySID-padding", "NewSymbolTokenBySID(%d) has text %q for a padding slot", id, *tok.Text)
					return
				}
				if tok.Text != nil && *tok.Text != "" {
					_, ok = fail("TokenBySID-undefined", "NewSymbolTokenBySID(%d)=%v for undefined text", id, tok.String())
					return
				}
			}
			fmt.Fprintf(&sb, "%d=%q,", id, text)
		}
		for _, t := range c09Texts {
			id, found := st.FindByName(t)
			wid, wfound := ref.ByName(t)
			c.Step(3)
			if found != wfound || (found && int64(id) != wid) {
				_, ok = fail("FindByName", "FindByName(%q)=(%d,%v) want (%d,%v)", t, id, found, wid, wfound)
				return
			}
			ft := st.Find(t)
			if (ft != nil) != wfound || (ft != nil && (ft.Text == nil || *ft.Text != t)) {
				_, ok = fail("Find", "Find(%q)=%v want found=%v", t, ft, wfound)
				return
			}
			tok, err := ion.NewSymbolToken(st, t)
			if err != nil || tok.Text == nil || *tok.Text != t || (wfound && tok.LocalSID != wid) || (!wfound && tok.LocalSID != ion.SymbolIDUnknown) {
				_, ok = fail("NewSymbolToken", "NewSymbolToken(%q)=%v err=%v want SID %d found=%v", t, tok.String(), err, wid, wfound)
				return
			}
			fmt.Fprintf(&sb, "%s=%d,", t, id)
		}
	})
	if failPanic(c, pan) {
		return "", false
	}
	return sb.String(), ok
}

type c09Snap struct {
	st  ion.SymbolTable
	ref *refsym.Table
	at  string
}

func c09Body(c *mc.Ctx) {
	maxImports, maxLocals, maxAdds := 2, 3, 3
	if c.Tier == "thorough" {
		maxImports, maxAdds = 3, 4
	}
	switch c.Pick("way", 3) {
	case 0: // constructed directly
		imps := c09PickImports(c, maxImports, true)
		locals := c09PickLocals(c, maxLocals)
		via := c.Pick("adjusted-before", 3)
		c.Case(func() string {
			return fmt.Sprintf("NewLocalSymbolTable(imports=%v, symbols=%q) %s", imps, locals, []string{"", "each import first adjusted to size+2", "each import first adjusted to size+3 and back to its size"}[via])
		})
		c.Class("direct")
		var st ion.SymbolTable
		if failPanic(c, drive.Safe(func() {
			var is []ion.SharedSymbolTable
			for _, i := range imps {
				is = append(is, c09IonSharedVia(i, via))
			}
			st = ion.NewLocalSymbolTable(is, locals)
		})) {
			return
		}
		ref := c09RefTable(imps, nil, locals)
		if d, ok := c09Compare(c, st, ref, "table"); ok {
			c.Observe(d)
			c.Nontrivial()
		}
	case 1: // through a Reader, each import present in or missing from the catalog
		imps := c09PickImports(c, maxImports, true)
		locals := c09PickLocals(c, 2)
		present := make([]bool, len(imps))
		var cat []ion.SharedSymbolTable
		for k, i := range imps {
			present[k] = c.Pick("in-catalog", 2) == 0
			if present[k] {
				p := c09Pool[i.pool]
				cat = append(cat, ion.NewSharedSymbolTable(p.Name, p.Version, p.Symbols))
			}
		}
		// the same table name may be listed twice; the catalog answers for both
		for k, i := range imps {
			for k2, i2 := range imps {
				if i.pool == i2.pool && present[k2] {
					present[k] = true
				}
			}
		}
		binary := c.Pick("format", 2) == 1
		lst := rm.StructV().A("$ion_symbol_table")
		il := rm.ListV()
		for _, i := range imps {
			p := c09Pool[i.pool]
			il.Kids = append(il.Kids, rm.StructV(rm.StrV(p.Name).F("name"), rm.IntV(int64(p.Version)).F("version"), rm.IntV(i.max).F("max_id")))
		}
		lst.Kids = append(lst.Kids, il.F("imports"))
		sl := rm.ListV()
		for _, l := range locals {
			sl.Kids = append(sl.Kids, rm.StrV(l))
		}
		lst.Kids = append(lst.Kids, sl.F("symbols"))
		// the same table declared in two steps: the imports alone, then a table that appends the locals
		tables := []*rm.Value{lst}
		split := c.Pick("two-steps", 2) == 1
		if split {
			first := rm.StructV(il.F("imports")).A("$ion_symbol_table")
			second := rm.StructV(rm.SymV("$ion_symbol_table").F("imports"), sl.F("symbols")).A("$ion_symbol_table")
			tables = []*rm.Value{first, second}
		}
		var data []byte
		if binary {
			ids := map[string]uint64{}
			for i, s := range refbin.SystemSymbols {
				ids[s] = uint64(i + 1)
			}
			e := &refbin.Encoder{Ch: rm.Canon{}, SID: func(t string) uint64 { return ids[t] }}
			data = append([]byte{}, refbin.BVM...)
			for _, t := range tables {
				data = append(data, e.Value(t)...)
			}
			data = append(data, 0x20)
		} else {
			data = reftext.Print(rm.Canon{}, append(append([]*rm.Value{}, tables...), rm.IntV(0)))
		}
		c.Case(func() string {
			return fmt.Sprintf("reader LST imports=%v in-catalog=%v symbols=%q binary=%v declared-in-two-steps=%v", imps, present, locals, binary, split)
		})
		c.Class("reader")
		var st ion.SymbolTable
		var next bool
		var rerr error
		if failPanic(c, drive.Safe(func() {
			r := ion.NewReaderCat(strings.NewReader(string(data)), ion.NewCatalog(cat...))
			next = r.Next()
			rerr = r.Err()
			st = r.SymbolTable()
		})) {
			return
		}
		c.Step(3)
		if !next || rerr != nil {
			c.Fail("unexpected-error", "reader-lst", "reader rejected the symbol table: %v (%q)", rerr, clipBytes(data, 120))
			return
		}
		ref := c09RefTable(imps, present, locals)
		if d, ok := c09Compare(c, st, ref, "reader table"); ok {
			c.Observe(d)
			c.Nontrivial()
		}
	default: // builder: Add sequences interleaved with Build, never renumbering
		imps := c09PickImports(c, maxImports-1, true)
		c.Class("builder")
		var adds []string
		c.Case(func() string { return fmt.Sprintf("NewSymbolTableBuilder(%v) Add%q", imps, adds) })
		var b ion.SymbolTableBuilder
		if failPanic(c, drive.Safe(func() {
			var is []ion.SharedSymbolTable
			for _, i := range imps {
				is = append(is, c09IonShared(i))
			}
			b = ion.NewSymbolTableBuilder(is...)
		})) {
			return
		}
		var locals []string
		var snaps []c09Snap
		ref := c09RefTable(imps, nil, locals)
		alpha := []string{"a", "b", "name", "x", "q"}
		for n := 0; n < maxAdds; n++ {
			k := c.Pick("add", len(alpha)+1)
			if k == 0 {
				break
			}
			t := alpha[k-1]
			adds = append(adds, t)
			wid, known := ref.ByName(t)
			if !known {
				locals = append(locals, t)
				ref = c09RefTable(imps, nil, locals)
				wid = ref.MaxID()
			}
			var id uint64
			var added bool
			if failPanic(c, drive.Safe(func() { id, added = b.Add(t) })) {
				return
			}
			c.Step(1)
			if int64(id) != wid || added == known {
				c.Fail("value-mismatch", "Add", "Add(%q)=(%d,%v) want (%d,%v) after %q", t, id, added, wid, !known, adds[:len(adds)-1])
				return
			}
			if _, ok := c09Compare(c, b, ref, fmt.Sprintf("builder after Add%q", adds)); !ok {
				return
			}
			// a table built earlier is a snapshot: later Adds on the builder must not show through
			for _, sn := range snaps {
				if _, ok := c09Compare(c, sn.st, sn.ref, fmt.Sprintf("%s, re-asked after Add%q", sn.at, adds)); !ok {
					return
				}
			}
			if c.Pick("build", 2) == 1 {
				var built ion.SymbolTable
				if failPanic(c, drive.Safe(func() { built = b.Build() })) {
					return
				}
				if _, ok := c09Compare(c, built, ref, fmt.Sprintf("Build() after Add%q", adds)); !ok {
					return
				}
				snaps = append(snaps, c09Snap{built, ref, fmt.Sprintf("Build() after Add%q", adds)})
			}
		}
		d, ok := c09Compare(c, b, ref, "builder")
		if ok {
			c.Observe(d)
			c.Nontrivial()
		}
	}
}

func init() {
	mc.Register(&mc.Check{
		ID:    "C09",
		Title: "Symbol tables assign and resolve symbol IDs as the Ion rules prescribe",
		Rule: "every import list of length <= n over a pool of 5 shared tables (empty, overlapping text, internal duplicates, an empty-string slot, text equal to system symbols), each adjusted to every max_id in 0..size+2, x every local symbol list of length <= 3 over {a,b,'',name,x,q}, built (i) with NewLocalSymbolTable, (ii) by a Reader from an LST in text and binary with each import present in / missing from the catalog (placeholder tables), declared at once or in two steps (imports only, then an appending table with the locals), (i) also with every import adjusted in two or three steps, (iii) with a builder under every Add sequence of length <= k with and without Build after each Add. " +
			"On each table: MaxID, FindByID and NewSymbolTokenBySID for every id in 0..MaxID+2, FindByName/Find/NewSymbolToken for 9 texts, all compared with the reference slot list (system 1..9, each import exactly max_id slots padded/truncated, locals after; lowest-ID lookup); after each Add every earlier answer is re-asked, of the builder and of every table built before that Add (a built table is a snapshot). " +
			"non-trivial = a complete query sweep matched the reference; distinct = distinct (construction way, all answers) digests",
		Bounds:      map[string]string{"quick": "n=2 imports, k=3 adds", "thorough": "n=3 imports, k=4 adds"},
		Assumptions: []string{"a slot whose text is the empty string is treated as 'text undefined' (ion-go documents \"\" as its padding value); FindByName(\"\") and the ok flag of FindByID on such slots are not compared"},
		Body:        c09Body,
		Tiers:       map[string]mc.Tier{"quick": {}, "thorough": {}},
	})
}
