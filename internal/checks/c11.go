package checks

import (
	"bytes"
	"fmt"
	"strings"

	"github.com/amzn/ion-go/ion"

	"verif/internal/drive"
	"verif/internal/mc"
	"verif/internal/refbin"
	rm "verif/internal/refmodel"
	"verif/internal/refsym"
)

// C11 — binary writers with shared or fixed tables emit resolvable, minimal symbols.

var c11Texts = []string{"a", "b", "c", "x", "name", "new1", "q", "$ion_symbol_table", "$5", "$99"}

type c11Use struct {
	kind int // 0 symbol value, 1 annotation, 2 field name
	text string
}

func (u c11Use) value() *rm.Value {
	switch u.kind {
	case 0:
		return rm.SymV(u.text)
	case 1:
		return rm.IntV(1).A(u.text)
	}
	return rm.StructV(rm.IntV(1).F(u.text))
}

func (u c11Use) String() string {
	return []string{"sym:", "annot:", "field:"}[u.kind] + u.text
}

// walkSyms visits every symbol occurrence of a raw value together with the resolved one.
func walkSyms(raw, res *rm.Value, f func(sid int64, text rm.Sym)) {
	for i := range raw.Annots {
		f(raw.Annots[i].SID, res.Annots[i])
	}
	if raw.Field != nil {
		f(raw.Field.SID, *res.Field)
	}
	if raw.Type == rm.Symbol && !raw.Null {
		f(raw.Sym.SID, res.Sym)
	}
	for i := range raw.Kids {
		walkSyms(raw.Kids[i], res.Kids[i], f)
	}
}

func c11Body(c *mc.Ctx) {
	maxVals := 2
	if c.Tier == "thorough" {
		maxVals = 3
	}
	api := c.Pick("api", 4) // 0 NewBinaryWriter(ssts), 1 NewBinaryWriterLST, 2 MarshalBinary(ssts), 3 MarshalBinaryLST
	imps := c09PickImports(c, 2, false)
	var uses []c11Use
	nv := maxVals
	if api >= 2 {
		nv = 1
	}
	for i := 0; i < nv; i++ {
		var k int
		if i == 0 {
			k = c.Shard("use", 3*len(c11Texts)+1)
		} else {
			k = c.Pick("use", 3*len(c11Texts)+1)
		}
		if k == 0 {
			break
		}
		k--
		uses = append(uses, c11Use{k / len(c11Texts), c11Texts[k%len(c11Texts)]})
	}
	if api >= 2 && (len(uses) == 0 || uses[0].kind == 1) {
		c.Skip("Marshal variant carries one symbol value or one field name")
		return
	}
	// tokens may carry, besides their text, an ID assigned by some other table; the text decides
	var wopts *drive.WriteOpts
	finishEach := false
	if api < 2 {
		wopts = &drive.WriteOpts{ForeignSID: []int64{0, 4, 11}[c.Pick("token.sid", 3)]}
		// one Writer, one batch per value: each batch's table must carry what that batch uses
		finishEach = len(uses) > 1 && c.Pick("finish-each", 2) == 1
	}
	apis := []string{"NewBinaryWriter(ssts)", "NewBinaryWriterLST", "MarshalBinary(ssts)", "MarshalBinaryLST"}
	c.Case(func() string {
		s := fmt.Sprintf("%s imports=%v uses=%v", apis[api], imps, uses)
		if wopts != nil && wopts.ForeignSID != 0 {
			s += fmt.Sprintf(" tokens-also-carry-sid=%d", wopts.ForeignSID)
		}
		if finishEach {
			s += " Finish-after-each-value"
		}
		return s
	})
	c.Class(apis[api])
	var ssts []ion.SharedSymbolTable
	var refcat refsym.Catalog
	for _, i := range imps {
		ssts = append(ssts, c09IonShared(i))
	}
	for i := range c09Pool {
		refcat = append(refcat, c09Pool[i])
	}
	fixedLocals := []string{"loc1", "x"}
	fixed := api == 1 || api == 3
	var vals []*rm.Value
	for _, u := range uses {
		vals = append(vals, u.value())
	}
	// what the stream's table must look like
	fixedRef := c09RefTable(imps, nil, fixedLocals)

	var out []byte
	var errs []error
	var pan string
	switch api {
	case 0, 1:
		var buf bytes.Buffer
		pan = drive.Safe(func() {
			var w ion.Writer
			if fixed {
				w = ion.NewBinaryWriterLST(&buf, ion.NewLocalSymbolTable(ssts, fixedLocals))
			} else {
				w = ion.NewBinaryWriter(&buf, ssts...)
			}
			for i, v := range vals {
				errs = append(errs, drive.WriteValue(w, v, wopts))
				if finishEach && i < len(vals)-1 {
					errs = append(errs, w.Finish())
				}
			}
			errs = append(errs, w.Finish())
		})
		out = buf.Bytes()
	default:
		var gv interface{}
		u := uses[0]
		if u.kind == 0 {
			gv = struct {
				V string `ion:"a,symbol"`
			}{u.text}
			vals = []*rm.Value{rm.StructV(rm.SymV(u.text).F("a"))}
		} else {
			gv = map[string]int{u.text: 1}
		}
		pan = drive.Safe(func() {
			var err error
			if fixed {
				out, err = ion.MarshalBinaryLST(gv, ion.NewLocalSymbolTable(ssts, fixedLocals))
			} else {
				out, err = ion.MarshalBinary(gv, ssts...)
			}
			errs = append(errs, err)
		})
	}
	c.Step(len(vals) + 1)
	if failPanic(c, pan) {
		return
	}
	// texts used, in order
	var texts []string
	for _, v := range vals {
		texts = append(texts, refbin.CollectSymbols([]*rm.Value{v})...)
		// CollectSymbols drops system symbols; add them back for the fixed-table judgement
	}
	if fixed {
		// first use of a text outside the table must fail, and everything after it
		bad := -1
		for i, v := range vals {
			var all []string
			var walk func(x *rm.Value)
			walk = func(x *rm.Value) {
				for _, a := range x.Annots {
					all = append(all, a.Text)
				}
				if x.Field != nil {
					all = append(all, x.Field.Text)
				}
				if x.Type == rm.Symbol {
					all = append(all, x.Sym.Text)
				}
				for _, k := range x.Kids {
					walk(k)
				}
			}
			walk(v)
			for _, t := range all {
				if _, ok := fixedRef.ByName(t); !ok && bad < 0 {
					bad = i
				}
			}
		}
		if api == 3 {
			if bad >= 0 {
				if errs[0] == nil {
					c.Fail("missing-error", "fixed-table-unknown-text", "MarshalBinaryLST wrote text outside the fixed table without error: %x", out)
					return
				}
				c.Observe("rejected")
				c.Nontrivial()
				return
			}
		} else if bad >= 0 {
			from := bad
			if finishEach {
				from = 2 * bad // a Finish result follows each value's result
			}
			for i := from; i < len(errs); i++ {
				if errs[i] == nil {
					c.Fail("missing-error", "fixed-table-unknown-text", "call #%d succeeded although call #%d used text outside the fixed table (errors: %v)", i, bad, errs)
					return
				}
			}
			// whatever was emitted must not use an ID the stream does not define
			if len(out) > 0 {
				if raw, err := refbin.DecodeRaw(out); err == nil {
					if _, err := refsym.Resolve(raw, refcat); err != nil && strings.Contains(err.Error(), "not defined") {
						c.Fail("invalid-output", "undefined-sid-after-error", "bytes %x use an undefined symbol ID: %v", out, err)
						return
					}
				}
			}
			c.Observe("rejected")
			c.Nontrivial()
			return
		}
	}
	for i, e := range errs {
		if e != nil {
			c.Fail("unexpected-error", errKey(e), "call #%d failed: %v", i, e)
			return
		}
	}
	if len(out) == 0 && len(vals) == 0 {
		// nothing was written: zero bytes are a valid stream of zero values
		c.Observe("empty")
		c.Nontrivial()
		return
	}
	raw, err := refbin.DecodeRaw(out)
	if err != nil {
		c.Fail("invalid-output", "invalid", "output %x is not valid Ion binary: %v", out, err)
		return
	}
	res, err := refsym.Resolve(raw, refcat)
	if err != nil {
		c.Fail("invalid-output", "unresolvable", "output %x: %v", out, err)
		return
	}
	if df := rm.DiffStreams(vals, res.Values); df != "" {
		c.Fail("value-mismatch", diffKey(df), "wrote %s, a reader holding the same tables recovers %s: %s (bytes %x)", rm.StreamString(vals), rm.StreamString(res.Values), df, out)
		return
	}
	// declared imports
	needTable := len(imps) > 0 || len(texts) > 0 || fixed
	if len(res.Tables) == 0 {
		if len(imps) > 0 && len(vals) > 0 {
			c.Fail("invalid-output", "imports-not-declared", "no symbol table in the output although %d shared tables were given: %x", len(imps), out)
			return
		}
	} else {
		ti := res.Tables[len(res.Tables)-1]
		if len(ti.Imports) != len(imps) {
			c.Fail("invalid-output", "imports-declared", "declared imports %v, given %v", ti.Imports, imps)
			return
		}
		for k, d := range ti.Imports {
			p := c09Pool[imps[k].pool]
			if d.Name != p.Name || d.Version != int64(p.Version) || d.MaxID != imps[k].max {
				c.Fail("invalid-output", "imports-declared", "import #%d declared as %+v, given %s v%d max_id %d", k, d, p.Name, p.Version, imps[k].max)
				return
			}
		}
		// locals: defined text only, each once, none that an import or the system table already carries
		importsOnly := c09RefTable(imps, nil, nil)
		seen := map[string]bool{}
		for _, s := range ti.Symbols {
			if !fixed {
				if _, dup := importsOnly.ByName(s.Text); dup && s.Defined {
					c.Fail("invalid-output", "local-duplicates-import", "local symbol %q is already carried by an import or the system table", s.Text)
					return
				}
				if seen[s.Text] {
					c.Fail("invalid-output", "local-twice", "local symbol %q defined twice", s.Text)
					return
				}
			}
			seen[s.Text] = true
		}
	}
	_ = needTable
	// every SID used is the lowest ID carrying that text in the stream's own table
	k := 0
	var final *refsym.Table = res.Final
	bad := ""
	for _, rv := range raw {
		if rv.Type == rm.Symbol && rv.Sym.HasText && rv.Sym.Text == "$ion_1_0" {
			continue
		}
		if rv.Type == rm.Struct && len(rv.Annots) > 0 && rv.Annots[0].SID == 3 {
			continue
		}
		if k >= len(res.Values) {
			break
		}
		walkSyms(rv, res.Values[k], func(sid int64, s rm.Sym) {
			if s.HasText && bad == "" {
				if low, ok := final.ByName(s.Text); ok && low != sid {
					bad = fmt.Sprintf("text %q written as ID %d although ID %d carries it", s.Text, sid, low)
				}
			}
		})
		k++
	}
	if bad != "" {
		c.Fail("invalid-output", "not-lowest-id", "%s (bytes %x)", bad, out)
		return
	}
	// without the catalog, only imported IDs lose their text
	res2, err := refsym.Resolve(raw, nil)
	if err != nil {
		c.Fail("invalid-output", "unresolvable-without-catalog", "%v", err)
		return
	}
	importsOnly := c09RefTable(imps, nil, nil)
	k = 0
	for i, v := range res2.Values {
		walkSyms(v, res.Values[i], func(_ int64, withCat rm.Sym) {})
		_ = v
		k++
	}
	var chk func(a, b *rm.Value)
	chk = func(noCat, withCat *rm.Value) {
		cmp := func(x, y rm.Sym) {
			if bad != "" || !y.HasText {
				return
			}
			id, inImport := importsOnly.ByName(y.Text)
			if inImport && id > 9 {
				if x.HasText {
					bad = fmt.Sprintf("text %q is carried by an import but is readable without the catalog (defined locally?)", y.Text)
				}
			} else if !x.HasText {
				bad = fmt.Sprintf("text %q is not in any import but is unknown without the catalog", y.Text)
			}
		}
		for i := range noCat.Annots {
			cmp(noCat.Annots[i], withCat.Annots[i])
		}
		if noCat.Field != nil {
			cmp(*noCat.Field, *withCat.Field)
		}
		if noCat.Type == rm.Symbol && !noCat.Null {
			cmp(noCat.Sym, withCat.Sym)
		}
		for i := range noCat.Kids {
			chk(noCat.Kids[i], withCat.Kids[i])
		}
	}
	for i := range res2.Values {
		chk(res2.Values[i], res.Values[i])
	}
	if bad != "" {
		c.Fail("invalid-output", "catalog-dependence", "%s (bytes %x)", bad, out)
		return
	}
	c.Observe(fmt.Sprintf("%x", clipBytes(out, 80)))
	c.Nontrivial()
}

func init() {
	mc.Register(&mc.Check{
		ID:    "C11",
		Title: "Binary writers with shared or fixed tables emit resolvable, minimal symbols",
		Rule: "every import list of length <= 2 over the C09 pool with every adjusted max_id x every sequence of <= n values whose symbol value / annotation / field name is drawn from {a,b,c,x,name,new1,q,$ion_symbol_table,$5,$99} (in first import, second only, both, trimmed away, system symbol, new text, repeated) x {NewBinaryWriter(ssts), NewBinaryWriterLST(fixed table imports+[loc1,x]), MarshalBinary(ssts), MarshalBinaryLST}. " +
			"Oracle (independent decoder, raw view): the stream's table declares exactly the given imports (name, version, max_id, order); every SID written is the lowest ID carrying that text; locals hold no text an import already carries and none twice; decoding with the same catalog recovers every text, decoding without it loses exactly the imported ones. Fixed table: the first call using text outside the table fails, every later call incl. Finish fails, and no undefined ID is emitted. " +
			"non-trivial = an output stream was decoded and all clauses evaluated (or the fixed-table rejection was observed); distinct = distinct (api, output bytes) digests",
		Bounds:      map[string]string{"quick": "<=2 imports, <=2 values", "thorough": "<=2 imports, <=3 values"},
		Assumptions: []string{"refbin/refsym trusted; symbol text '' (ion-go's padding value) is not used as symbol text here"},
		Body:        c11Body,
		Tiers:       map[string]mc.Tier{"quick": {}, "thorough": {}},
	})
}
