package checks

import (
	"fmt"
	"math"
	"math/big"
	"regexp"
	"strings"

	"github.com/amzn/ion-go/ion"

	"verif/internal/drive"
	"verif/internal/mc"
)

// C14 — decimal arithmetic is exact and decimal text round-trips.
//
// Alphabet: grid G of (coefficient, exponent, negative-zero). Oracle: exact
// integer arithmetic on (coef, exp) pairs (never materialising 10^exp, only
// 10^(exponent difference)), plus an independent decimal-literal grammar.

type rdec struct {
	c  *big.Int
	e  int64
	nz bool
}

func (d rdec) String() string {
	if d.nz {
		return fmt.Sprintf("-0d%d", d.e)
	}
	return fmt.Sprintf("%vd%d", d.c, d.e)
}

func pow10(n int64) *big.Int {
	return new(big.Int).Exp(big.NewInt(10), big.NewInt(n), nil)
}

func digits(c *big.Int) int64 {
	if c.Sign() == 0 {
		return 1
	}
	return int64(len(new(big.Int).Abs(c).String()))
}

// cmpVal compares c1×10^e1 with c2×10^e2 exactly.
func cmpVal(c1 *big.Int, e1 int64, c2 *big.Int, e2 int64) int {
	s1, s2 := c1.Sign(), c2.Sign()
	if s1 != s2 {
		if s1 < s2 {
			return -1
		}
		return 1
	}
	if s1 == 0 {
		return 0
	}
	// same non-zero sign: compare magnitudes via adjusted exponents first
	a1, a2 := digits(c1)+e1, digits(c2)+e2
	if a1 != a2 {
		r := 1
		if a1 < a2 {
			r = -1
		}
		return r * s1
	}
	// adjusted exponents equal ⇒ |e1-e2| = |digits difference|, small
	m := e1
	if e2 < m {
		m = e2
	}
	x := new(big.Int).Mul(c1, pow10(e1-m))
	y := new(big.Int).Mul(c2, pow10(e2-m))
	return x.Cmp(y)
}

var c14GridCache = map[string][]rdec{}

func c14Grid(tier string) []rdec {
	if g, ok := c14GridCache[tier]; ok {
		return g
	}
	g := c14GridBuild(tier)
	c14GridCache[tier] = g
	return g
}

func c14GridBuild(tier string) []rdec {
	two63 := new(big.Int).Lsh(big.NewInt(1), 63)
	two64 := new(big.Int).Lsh(big.NewInt(1), 64)
	e18 := pow10(18)
	pos := []*big.Int{
		big.NewInt(1), big.NewInt(5), big.NewInt(9), big.NewInt(10), big.NewInt(12), big.NewInt(99),
		big.NewInt(100), big.NewInt(123), big.NewInt(999), big.NewInt(1000),
		new(big.Int).Sub(e18, big.NewInt(1)), new(big.Int).Add(e18, big.NewInt(1)), two63, two64, pow10(30),
	}
	coefs := []*big.Int{big.NewInt(0)}
	for _, p := range pos {
		coefs = append(coefs, p, new(big.Int).Neg(p))
	}
	var exps []int64
	if tier == "thorough" {
		for e := int64(-45); e <= 45; e++ {
			exps = append(exps, e)
		}
	} else {
		for _, e := range []int64{0, 1, 2, 3, 5, 9, 10, 18, 19, 20, 21, 30, 31, 40} {
			exps = append(exps, e)
			if e != 0 {
				exps = append(exps, -e)
			}
		}
	}
	exps = append(exps, 63, -63, 64, -64, 8191, -8191, 8192, -8192, math.MaxInt32, -math.MaxInt32, math.MinInt32)
	var g []rdec
	for _, e := range exps {
		for _, c := range coefs {
			g = append(g, rdec{c, e, false})
		}
		g = append(g, rdec{big.NewInt(0), e, true})
	}
	return g
}

func toIon(d rdec) *ion.Decimal { return ion.NewDecimal(new(big.Int).Set(d.c), int32(d.e), d.nz) }

func fromIon(d *ion.Decimal) rdec {
	c, e := d.CoEx()
	return rdec{c, int64(e), ion.VerifDecimalNegZero(d)}
}

var decLiteral = regexp.MustCompile(`^-?(0|[1-9][0-9]*)(\.[0-9]*)?([dD][+-]?[0-9]+)?$`)

// parseDecLiteral is the reference reading of an Ion decimal literal.
func parseDecLiteral(s string) (rdec, bool) {
	if !decLiteral.MatchString(s) || !strings.ContainsAny(s, ".dD") {
		return rdec{}, false
	}
	neg := strings.HasPrefix(s, "-")
	body := strings.TrimPrefix(s, "-")
	exp := int64(0)
	if i := strings.IndexAny(body, "dD"); i >= 0 {
		x, ok := new(big.Int).SetString(strings.TrimPrefix(body[i+1:], "+"), 10)
		if !ok || !x.IsInt64() {
			return rdec{}, false
		}
		exp = x.Int64()
		body = body[:i]
	}
	if i := strings.Index(body, "."); i >= 0 {
		exp -= int64(len(body) - i - 1)
		body = body[:i] + body[i+1:]
	}
	c, ok := new(big.Int).SetString(body, 10)
	if !ok {
		return rdec{}, false
	}
	nz := false
	if neg {
		if c.Sign() == 0 {
			nz = true
		}
		c.Neg(c)
	}
	return rdec{c, exp, nz}, true
}

var c14Spellings = func() []string {
	var out []string
	for _, sign := range []string{"", "-"} {
		for _, ip := range []string{"0", "1", "12", "100"} {
			for _, fp := range []string{"", ".", ".0", ".5", ".05", ".50"} {
				for _, ex := range []string{"", "d0", "d5", "d-5", "D+5", "d-0", "D12"} {
					if fp == "" && ex == "" {
						continue
					}
					out = append(out, sign+ip+fp+ex)
				}
			}
		}
	}
	// exponents at and beyond the int32 range, without and with fraction digits (which lower the exponent further)
	for _, sign := range []string{"", "-"} {
		for _, fp := range []string{"", ".", ".5", ".05", ".125"} {
			for _, ex := range []string{"d2147483647", "d2147483648", "d2147483650", "d-2147483645", "d-2147483646", "d-2147483647", "d-2147483648", "d-2147483649", "d99999999999", "d-99999999999"} {
				out = append(out, sign+"1"+fp+ex)
			}
		}
	}
	return out
}()

func fitsInt32(e int64) bool { return e >= math.MinInt32 && e <= math.MaxInt32 }

func c14Body(c *mc.Ctx) {
	g := c14Grid(c.Tier)
	maxGap := int64(100)
	truncPs := []int{1, 2, 3, 4, 9, 10, 18, 19, 20, 30, 31, 35}
	shifts := []int{0, 1, -1, 9, -9, 40, -40}
	if c.Tier == "thorough" {
		maxGap = 20000
		truncPs = nil
		for p := 1; p <= 40; p++ {
			truncPs = append(truncPs, p)
		}
		shifts = []int{0, 1, -1, 2, -2, 9, -9, 40, -40, 1000, -1000, math.MaxInt32, -math.MaxInt32}
	}
	switch c.Pick("mode", 3) {
	case 0: // unary
		a := g[c.Shard("a", len(g))]
		op := c.Pick("op", 6)
		da := toIon(a)
		switch op {
		case 0: // Neg, Abs, Sign
			c.Case(func() string { return fmt.Sprintf("Neg/Abs/Sign(%v)", a) })
			var neg, abs *ion.Decimal
			var sign int
			if p := drive.Safe(func() { neg, abs, sign = da.Neg(), da.Abs(), da.Sign() }); p != "" {
				c.Fail("panic", drive.PanicSite(p), "%s", p)
				return
			}
			c.Step(3)
			n, ab := fromIon(neg), fromIon(abs)
			if cmpVal(n.c, n.e, new(big.Int).Neg(a.c), a.e) != 0 {
				c.Fail("value-mismatch", "Neg", "Neg(%v)=%v", a, n)
			}
			if cmpVal(ab.c, ab.e, new(big.Int).Abs(a.c), a.e) != 0 {
				c.Fail("value-mismatch", "Abs", "Abs(%v)=%v", a, ab)
			}
			if sign != a.c.Sign() {
				c.Fail("value-mismatch", "Sign", "Sign(%v)=%d", a, sign)
			}
			c.Observe(n, ab, sign)
			c.Nontrivial()
		case 1: // String -> valid literal -> ParseDecimal -> same triple
			c.Case(func() string { return fmt.Sprintf("String/Parse(%v)", a) })
			var s string
			var back *ion.Decimal
			var err error
			if p := drive.Safe(func() { s = da.String(); back, err = ion.ParseDecimal(s) }); p != "" {
				c.Fail("panic", drive.PanicSite(p), "%s", p)
				return
			}
			c.Step(2)
			ref, ok := parseDecLiteral(s)
			if !ok {
				c.Fail("invalid-output", "String", "String(%v)=%q is not an Ion decimal literal", a, s)
				return
			}
			if ref.c.Cmp(a.c) != 0 || ref.e != a.e || ref.nz != a.nz {
				c.Fail("value-mismatch", "String", "String(%v)=%q denotes %v", a, s, ref)
				return
			}
			if err != nil {
				c.Fail("unexpected-error", "ParseDecimal", "ParseDecimal(%q): %v", s, err)
				return
			}
			b := fromIon(back)
			if b.c.Cmp(a.c) != 0 || b.e != a.e || b.nz != a.nz {
				c.Fail("value-mismatch", "ParseDecimal", "ParseDecimal(String(%v)=%q)=%v", a, s, b)
			}
			c.Observe(s)
			c.Nontrivial()
		case 2: // Truncate
			p := truncPs[c.Pick("p", len(truncPs))]
			c.Case(func() string { return fmt.Sprintf("Truncate(%v, %d)", a, p) })
			dg := digits(a.c)
			want := rdec{a.c, a.e, false}
			if dg > int64(p) {
				k := dg - int64(p)
				want = rdec{new(big.Int).Quo(a.c, pow10(k)), a.e + k, false}
				if !fitsInt32(want.e) {
					c.Skip("truncate exponent out of int32")
					return
				}
			}
			var r *ion.Decimal
			if pn := drive.Safe(func() { r = da.Truncate(p) }); pn != "" {
				c.Fail("panic", drive.PanicSite(pn), "%s", pn)
				return
			}
			c.Step(1)
			got := fromIon(r)
			if cmpVal(got.c, got.e, want.c, want.e) != 0 {
				c.Fail("value-mismatch", "Truncate", "Truncate(%v,%d)=%v want value %v", a, p, got, want)
			}
			if digits(got.c) > int64(p) && got.c.Sign() != 0 {
				c.Fail("value-mismatch", "Truncate-precision", "Truncate(%v,%d)=%v has more than %d digits", a, p, got, p)
			}
			c.Observe(got)
			c.Nontrivial()
		case 3, 4: // ShiftL / ShiftR
			s := shifts[c.Pick("s", len(shifts))]
			left := op == 3
			c.Case(func() string { return fmt.Sprintf("Shift(left=%v)(%v, %d)", left, a, s) })
			we := a.e + int64(s)
			if !left {
				we = a.e - int64(s)
			}
			if !fitsInt32(we) || !fitsInt32(-we) {
				c.Skip("shift exponent out of int32")
				return
			}
			var r *ion.Decimal
			if pn := drive.Safe(func() {
				if left {
					r = da.ShiftL(s)
				} else {
					r = da.ShiftR(s)
				}
			}); pn != "" {
				c.Fail("panic", drive.PanicSite(pn), "%s", pn)
				return
			}
			c.Step(1)
			got := fromIon(r)
			if cmpVal(got.c, got.e, a.c, we) != 0 {
				c.Fail("value-mismatch", "Shift", "Shift(left=%v)(%v,%d)=%v want %vd%d", left, a, s, got, a.c, we)
			}
			c.Observe(got)
			c.Nontrivial()
		case 5: // Cmp/Equal with itself and with its negation
			c.Case(func() string { return fmt.Sprintf("Cmp(%v, itself/neg)", a) })
			var c1, c2 int
			var eq bool
			if pn := drive.Safe(func() { c1 = da.Cmp(toIon(a)); c2 = da.Cmp(da.Neg()); eq = da.Equal(toIon(a)) }); pn != "" {
				c.Fail("panic", drive.PanicSite(pn), "%s", pn)
				return
			}
			c.Step(3)
			if c1 != 0 || !eq || c2 != a.c.Sign() {
				c.Fail("value-mismatch", "Cmp-self", "Cmp(%v,self)=%d Equal=%v Cmp(neg)=%d", a, c1, eq, c2)
			}
			c.Observe(c1, c2, eq)
			c.Nontrivial()
		}
	case 1: // binary
		a := g[c.Shard("a", len(g))]
		b := g[c.Pick("b", len(g))]
		c.Case(func() string { return fmt.Sprintf("Add/Sub/Mul/Cmp/Equal(%v, %v)", a, b) })
		da, db := toIon(a), toIon(b)
		gap := a.e - b.e
		if gap < 0 {
			gap = -gap
		}
		if a.e == math.MinInt32 || b.e == math.MinInt32 {
			// -exp is not representable as the internal scale; binary arithmetic on it is outside the int32 exponent domain
			c.Skip("exponent -2^31")
			return
		}
		did := false
		if gap <= maxGap {
			did = true
			var sum, dif *ion.Decimal
			var cmp int
			var eq bool
			if pn := drive.Safe(func() { sum, dif, cmp, eq = da.Add(db), da.Sub(db), da.Cmp(db), da.Equal(db) }); pn != "" {
				c.Fail("panic", drive.PanicSite(pn), "%s", pn)
				return
			}
			c.Step(4)
			m := a.e
			if b.e < m {
				m = b.e
			}
			x := new(big.Int).Mul(a.c, pow10(a.e-m))
			y := new(big.Int).Mul(b.c, pow10(b.e-m))
			s, d := fromIon(sum), fromIon(dif)
			if cmpVal(s.c, s.e, new(big.Int).Add(x, y), m) != 0 {
				c.Fail("value-mismatch", "Add", "%v+%v=%v", a, b, s)
			}
			if cmpVal(d.c, d.e, new(big.Int).Sub(x, y), m) != 0 {
				c.Fail("value-mismatch", "Sub", "%v-%v=%v", a, b, d)
			}
			want := x.Cmp(y)
			if cmp != want {
				c.Fail("value-mismatch", "Cmp", "Cmp(%v,%v)=%d want %d", a, b, cmp, want)
			}
			if eq != (want == 0) {
				c.Fail("value-mismatch", "Equal", "Equal(%v,%v)=%v", a, b, eq)
			}
			c.Observe(s, d, cmp, eq)
		}
		if fitsInt32(a.e+b.e) && fitsInt32(-(a.e + b.e)) {
			did = true
			var prod *ion.Decimal
			if pn := drive.Safe(func() { prod = da.Mul(db) }); pn != "" {
				c.Fail("panic", drive.PanicSite(pn), "%s", pn)
				return
			}
			c.Step(1)
			p := fromIon(prod)
			if cmpVal(p.c, p.e, new(big.Int).Mul(a.c, b.c), a.e+b.e) != 0 {
				c.Fail("value-mismatch", "Mul", "%v*%v=%v", a, b, p)
			}
			c.Observe(p)
		}
		if !did {
			c.Skip("exponent gap beyond bound and product exponent out of int32")
			return
		}
		c.Nontrivial()
	case 2: // ParseDecimal on every spelling of the literal alphabet
		s := c14Spellings[c.Shard("spelling", len(c14Spellings))]
		c.CaseStr("ParseDecimal(" + s + ")")
		ref, ok := parseDecLiteral(s)
		if !ok {
			c.Skip("not a literal")
			return
		}
		var d *ion.Decimal
		var err error
		if pn := drive.Safe(func() { d, err = ion.ParseDecimal(s) }); pn != "" {
			c.Fail("panic", drive.PanicSite(pn), "%s", pn)
			return
		}
		c.Step(1)
		if !fitsInt32(ref.e) {
			// the value cannot be held (int32 exponent): an error, never some other value
			if err == nil {
				c.Fail("missing-error", "ParseDecimal-exponent", "ParseDecimal(%q) = %v although the exponent %d is outside int32", s, fromIon(d), ref.e)
				return
			}
			c.Observe("rejected")
			c.Nontrivial()
			return
		}
		if err != nil {
			c.Fail("unexpected-error", "ParseDecimal", "ParseDecimal(%q): %v", s, err)
			return
		}
		got := fromIon(d)
		if got.c.Cmp(ref.c) != 0 || got.e != ref.e || got.nz != ref.nz {
			c.Fail("value-mismatch", "ParseDecimal-spelling", "ParseDecimal(%q)=%v want %v", s, got, ref)
		}
		c.Observe(got)
		c.Nontrivial()
	}
}

func init() {
	mc.Register(&mc.Check{
		ID:    "C14",
		Title: "Decimal arithmetic is exact and decimal text round-trips",
		Rule: "every decimal of grid G (29 coefficients incl. 0, ±(10^18±1), ±2^63, ±2^64, ±10^30 x exponents incl. ±63/64/8191/8192/±(2^31-1)/-2^31, plus negative zero at every exponent): " +
			"all unary ops (Neg/Abs/Sign, String->literal grammar->ParseDecimal, Truncate(p) for every p, ShiftL/ShiftR(s) for every s, Cmp/Equal with self and negation), " +
			"ALL ordered pairs of G for Add/Sub/Cmp/Equal (exponent gap <= bound) and Mul (product exponent in int32), and every literal spelling of a small product alphabet through ParseDecimal; " +
			"non-trivial = at least one ion-go operation result was compared with the exact integer-arithmetic oracle; distinct = distinct (case class, observed results) digests",
		Bounds: map[string]string{
			"quick":    "|G|=1131..; exponent gap <= 100; 12 precisions; 7 shifts",
			"thorough": "exponents -45..45 dense; exponent gap <= 20000; precisions 1..40; 13 shifts incl. ±(2^31-1)",
		},
		Assumptions: []string{
			"results whose exponent leaves int32 are outside the property's domain (the API documents a panic)",
			"Add/Sub/Cmp on exponent gaps above the bound are not explored (the exact result has more digits than the gap)",
			"math/big is trusted",
		},
		Body:  c14Body,
		Tiers: map[string]mc.Tier{"quick": {}, "thorough": {}},
	})
}
