package checks

import (
	"fmt"
	"math"
	"math/big"
	"reflect"
	"strings"
	"time"

	"github.com/amzn/ion-go/ion"

	"verif/internal/drive"
	"verif/internal/mc"
	"verif/internal/refbin"
	rm "verif/internal/refmodel"
	"verif/internal/reftext"
)

// C17 — Unmarshal either fills the target faithfully or returns an error.

func bigPow(k uint, d int64) *big.Int {
	return new(big.Int).Add(new(big.Int).Lsh(big.NewInt(1), k), big.NewInt(d))
}

var c17Values = func() []*rm.Value {
	vs := []*rm.Value{
		rm.NullOf(rm.Null), rm.NullOf(rm.Int), rm.NullOf(rm.String), rm.NullOf(rm.List), rm.NullOf(rm.Struct), rm.NullOf(rm.Bool), rm.NullOf(rm.Timestamp),
		rm.BoolV(true), rm.BoolV(false),
		rm.IntV(0), rm.IntV(-1), rm.IntV(127), rm.IntV(128), rm.IntV(-128), rm.IntV(-129), rm.IntV(255), rm.IntV(256), rm.IntV(32767), rm.IntV(32768), rm.IntV(-32769), rm.IntV(65535), rm.IntV(65536),
		rm.IntV(math.MaxInt32), rm.IntV(math.MaxInt32 + 1), rm.IntV(math.MinInt32 - 1), rm.IntV(math.MaxUint32), rm.IntV(math.MaxUint32 + 1), rm.IntV(math.MaxInt64), rm.IntV(math.MinInt64),
		rm.BigV(bigPow(63, 0)), rm.BigV(bigPow(64, -1)), rm.BigV(bigPow(64, 0)), rm.BigV(new(big.Int).Neg(bigPow(63, 1))), rm.BigV(bigPow(100, 0)),
		rm.FloatV(0), rm.FloatV(math.Copysign(0, -1)), rm.FloatV(1.5), rm.FloatV(0.1), rm.FloatV(math.MaxFloat32), rm.FloatV(3.5e38), rm.FloatV(-3.5e38), rm.FloatV(1e300), rm.FloatV(math.Inf(1)), rm.FloatV(math.NaN()), rm.FloatV(2),
		rm.DecV(big.NewInt(15), -1, false), rm.DecV(big.NewInt(0), -2, true), rm.DecV(big.NewInt(5), 0, false),
		rm.TSV(rm.TS{Year: 2000, Month: 2, Day: 29, Prec: rm.PDay}), rm.TSV(rm.TS{Year: 2000, Month: 1, Day: 2, Hour: 3, Minute: 4, Second: 5, Prec: rm.PSecond, FracDigits: 3, FracCoef: big.NewInt(120), OffsetKnown: true, OffsetMin: 330}),
		rm.SymV("a"), rm.SymV(""), rm.SymTok(rm.NoText(0)), rm.SymV("$5"),
		rm.StrV(""), rm.StrV("hello"), rm.StrV("5"),
		rm.ClobV([]byte("abc")), rm.BlobV([]byte{1, 2, 3}), rm.BlobV([]byte{1, 2}), rm.BlobV([]byte{1, 2, 3, 4}), rm.BlobV(nil),
		rm.ListV(), rm.ListV(rm.IntV(1), rm.IntV(2)), rm.ListV(rm.IntV(1), rm.StrV("a")), rm.ListV(rm.IntV(1), rm.IntV(2), rm.IntV(3), rm.IntV(4)), rm.ListV(rm.IntV(300)), rm.ListV(rm.NullOf(rm.Null), rm.IntV(7)),
		rm.SexpV(rm.IntV(1), rm.IntV(2)),
		rm.StructV(), rm.StructV(rm.IntV(1).F("a")), rm.StructV(rm.IntV(1).F("A"), rm.StrV("x").F("b")), rm.StructV(rm.IntV(1).F("a"), rm.IntV(2).F("a")), rm.StructV(rm.IntV(1).F("zzz")), rm.StructV(rm.StrV("s").F("A")),
		rm.IntV(20).A("age"), rm.StructV(rm.IntV(1).F("A")).A("x", "y"), rm.StrV("v").AS(rm.NoText(0)),
	}
	return vs
}()

type c17Pair struct {
	A int
	B string
}
type c17AnnInt struct {
	Value int
	Ann   []ion.SymbolToken `ion:",annotations"`
}
type c17AnnAny struct {
	Value interface{}
	Ann   []ion.SymbolToken `ion:",annotations"`
}
type c17AnnReadme struct {
	Value   interface{}
	AnyName []string `ion:",annotations"`
}

type c17Target struct {
	name string
	typ  reflect.Type
}

func tOf(v interface{}) reflect.Type { return reflect.TypeOf(v).Elem() }

var c17Targets = []c17Target{
	{"bool", tOf(new(bool))}, {"int8", tOf(new(int8))}, {"int16", tOf(new(int16))}, {"int32", tOf(new(int32))}, {"int64", tOf(new(int64))}, {"int", tOf(new(int))},
	{"uint8", tOf(new(uint8))}, {"uint16", tOf(new(uint16))}, {"uint32", tOf(new(uint32))}, {"uint64", tOf(new(uint64))}, {"uint", tOf(new(uint))},
	{"float32", tOf(new(float32))}, {"float64", tOf(new(float64))}, {"string", tOf(new(string))},
	{"[]byte", tOf(new([]byte))}, {"[3]byte", tOf(new([3]byte))}, {"[]int", tOf(new([]int))}, {"[2]int", tOf(new([2]int))}, {"[]uint8-list", tOf(new([]int8))}, {"[]string", tOf(new([]string))}, {"[]interface{}", tOf(new([]interface{}))},
	{"map[string]int", tOf(new(map[string]int))}, {"map[named string]int", tOf(new(map[c06Key]int))}, {"map[string]interface{}", tOf(new(map[string]interface{}))}, {"struct{A int;B string}", tOf(new(c17Pair))},
	{"*int", tOf(new(*int))}, {"*string", tOf(new(*string))}, {"**int", tOf(new(**int))}, {"interface{}", tOf(new(interface{}))},
	{"Timestamp", tOf(new(ion.Timestamp))}, {"Decimal", tOf(new(ion.Decimal))}, {"*Decimal", tOf(new(*ion.Decimal))}, {"big.Int", tOf(new(big.Int))}, {"*big.Int", tOf(new(*big.Int))},
	{"SymbolToken", tOf(new(ion.SymbolToken))}, {"time.Time", tOf(new(time.Time))},
	{"annot{Value int}", tOf(new(c17AnnInt))}, {"annot{Value interface{}}", tOf(new(c17AnnAny))}, {"README annot{[]string}", tOf(new(c17AnnReadme))},
}

const (
	jUnjudged = iota
	jMustErr
	jMustOK
)

func isIntKind(k reflect.Kind) bool {
	switch k {
	case reflect.Int, reflect.Int8, reflect.Int16, reflect.Int32, reflect.Int64, reflect.Uint, reflect.Uint8, reflect.Uint16, reflect.Uint32, reflect.Uint64:
		return true
	}
	return false
}

func intFits(i *big.Int, k reflect.Kind) bool {
	bits := map[reflect.Kind]uint{reflect.Int8: 8, reflect.Int16: 16, reflect.Int32: 32, reflect.Int64: 64, reflect.Int: 64, reflect.Uint8: 8, reflect.Uint16: 16, reflect.Uint32: 32, reflect.Uint64: 64, reflect.Uint: 64}[k]
	switch k {
	case reflect.Uint, reflect.Uint8, reflect.Uint16, reflect.Uint32, reflect.Uint64:
		return i.Sign() >= 0 && i.BitLen() <= int(bits)
	}
	lo := new(big.Int).Neg(new(big.Int).Lsh(big.NewInt(1), bits-1))
	hi := new(big.Int).Sub(new(big.Int).Lsh(big.NewInt(1), bits-1), big.NewInt(1))
	return i.Cmp(lo) >= 0 && i.Cmp(hi) <= 0
}

// c17Judge says what the documented mapping demands for Ion value v into a target of type t,
// and returns a checker for the stored value when success is allowed.
func c17Judge(v *rm.Value, t reflect.Type) (verdict int, check func(reflect.Value) string) {
	for t.Kind() == reflect.Ptr {
		inner := t.Elem()
		if inner == reflect.TypeOf(ion.Decimal{}) || inner == reflect.TypeOf(big.Int{}) {
			break
		}
		ver, chk := c17Judge(v, inner)
		if v.Null {
			return jUnjudged, nil
		}
		return ver, func(s reflect.Value) string {
			if chk == nil {
				return ""
			}
			if s.Kind() == reflect.Ptr {
				if s.IsNil() {
					return "stored a nil pointer for a non-null value"
				}
				return chk(s.Elem())
			}
			return chk(s)
		}
	}
	// annotation wrappers: judged on the inner value only when there are annotations or not, the wrapper takes any type
	if t == reflect.TypeOf(c17AnnInt{}) || t == reflect.TypeOf(c17AnnAny{}) || t == reflect.TypeOf(c17AnnReadme{}) {
		inner := reflect.TypeOf(0)
		if t != reflect.TypeOf(c17AnnInt{}) {
			inner = reflect.TypeOf((*interface{})(nil)).Elem()
		}
		bare := v.Clone()
		bare.Annots = nil
		ver, chk := c17Judge(bare, inner)
		if v.Type == rm.Struct && !v.Null {
			// a Go struct with an annotations field may also be filled field-by-field from an Ion struct: not judged
			return jUnjudged, nil
		}
		if t == reflect.TypeOf(c17AnnReadme{}) {
			for _, a := range v.Annots {
				if !a.HasText {
					return jMustErr, nil // an annotation without text cannot become a string
				}
			}
		}
		return ver, func(s reflect.Value) string {
			if chk != nil {
				if d := chk(s.Field(0)); d != "" {
					return "Value: " + d
				}
			}
			if strs, ok := s.Field(1).Interface().([]string); ok {
				if len(strs) != len(v.Annots) {
					return fmt.Sprintf("annotations %q, want %v", strs, v.Annots)
				}
				for i, x := range strs {
					if x != v.Annots[i].Text {
						return fmt.Sprintf("annotation %d is %q, want %v", i, x, v.Annots[i])
					}
				}
			}
			if toks, ok := s.Field(1).Interface().([]ion.SymbolToken); ok {
				if len(toks) != len(v.Annots) {
					return fmt.Sprintf("annotations %v, want %v", toks, v.Annots)
				}
				for i, tk := range toks {
					if !drive.SymOf(tk).EqualText(v.Annots[i]) {
						return fmt.Sprintf("annotation %d is %v, want %v", i, tk.String(), v.Annots[i])
					}
				}
			}
			return ""
		}
	}
	if len(v.Annots) > 0 {
		// annotations are dropped when the target has nowhere to put them: judge the bare value
		bare := v.Clone()
		bare.Annots = nil
		return c17Judge(bare, t)
	}
	if v.Null {
		// any null zeroes the target; a typed null into another type is not judged
		return jUnjudged, func(s reflect.Value) string {
			if !s.IsZero() {
				return fmt.Sprintf("a null left %v in the target", s.Interface())
			}
			return ""
		}
	}
	k := t.Kind()
	iface := k == reflect.Interface
	imageEq := func(hint rm.Type, loose func(img *rm.Value) *rm.Value) func(reflect.Value) string {
		return func(s reflect.Value) string {
			var img *rm.Value
			if p := drive.Safe(func() { img = ionImage(s, hint, true) }); p != "" {
				return "cannot image the stored value: " + p
			}
			want := v.Clone()
			want.Annots = nil
			if loose != nil {
				img = loose(img)
			}
			a, b := want.Clone(), img.Clone()
			sortStructs(a)
			sortStructs(b)
			if d := rm.Diff(a, b); d != "" {
				return fmt.Sprintf("stored %s for %s: %s", img, want, d)
			}
			return ""
		}
	}
	switch v.Type {
	case rm.Bool:
		if k == reflect.Bool || iface {
			return jMustOK, imageEq(0, nil)
		}
		return jMustErr, nil
	case rm.Int:
		switch {
		case isIntKind(k):
			if intFits(v.Int, k) {
				return jMustOK, imageEq(0, nil)
			}
			return jMustErr, nil
		case t == reflect.TypeOf(big.Int{}) || t == reflect.TypeOf(&big.Int{}):
			return jMustOK, imageEq(0, nil)
		case iface:
			return jMustOK, imageEq(0, nil)
		case k == reflect.Float32 || k == reflect.Float64:
			return jUnjudged, nil
		}
		return jMustErr, nil
	case rm.Float:
		switch {
		case k == reflect.Float64 || iface:
			return jMustOK, imageEq(0, nil)
		case t == reflect.TypeOf(ion.Decimal{}) || t == reflect.TypeOf(&ion.Decimal{}):
			return jUnjudged, nil // a deliberate, undocumented float -> Decimal conversion
		case k == reflect.Float32:
			f := v.Float
			if !math.IsInf(f, 0) && !math.IsNaN(f) && math.Abs(f) > math.MaxFloat32 {
				return jMustErr, nil
			}
			return jMustOK, func(s reflect.Value) string {
				got := float32(s.Float())
				if math.IsNaN(f) && math.IsNaN(float64(got)) {
					return ""
				}
				if math.Float32bits(got) != math.Float32bits(float32(f)) {
					return fmt.Sprintf("stored %v for %v", got, f)
				}
				return ""
			}
		}
		return jMustErr, nil
	case rm.Decimal:
		if t == reflect.TypeOf(ion.Decimal{}) || t == reflect.TypeOf(&ion.Decimal{}) || iface {
			return jMustOK, imageEq(0, nil)
		}
		if k == reflect.Float32 || k == reflect.Float64 || isIntKind(k) {
			return jUnjudged, nil
		}
		return jMustErr, nil
	case rm.Timestamp:
		if t == reflect.TypeOf(ion.Timestamp{}) || iface {
			return jMustOK, imageEq(0, nil)
		}
		if t == reflect.TypeOf(time.Time{}) {
			return jUnjudged, nil
		}
		return jMustErr, nil
	case rm.Symbol:
		switch {
		case k == reflect.String:
			if !v.Sym.HasText {
				return jMustErr, nil
			}
			return jMustOK, func(s reflect.Value) string {
				if s.String() != v.Sym.Text {
					return fmt.Sprintf("stored %q for symbol %v", s.String(), v.Sym)
				}
				return ""
			}
		case t == reflect.TypeOf(ion.SymbolToken{}):
			return jMustOK, func(s reflect.Value) string {
				if !drive.SymOf(s.Interface().(ion.SymbolToken)).EqualText(v.Sym) {
					return fmt.Sprintf("stored token %v for %v", s.Interface(), v.Sym)
				}
				return ""
			}
		case iface:
			return jMustOK, nil
		}
		return jMustErr, nil
	case rm.String:
		if k == reflect.String || iface {
			return jMustOK, imageEq(0, nil)
		}
		return jMustErr, nil
	case rm.Clob, rm.Blob:
		hint := rm.Type(0)
		if v.Type == rm.Clob {
			hint = rm.Clob
		}
		switch {
		case k == reflect.Slice && t.Elem().Kind() == reflect.Uint8:
			return jMustOK, imageEq(hint, nil)
		case k == reflect.Array && t.Elem().Kind() == reflect.Uint8:
			if len(v.Bytes) != t.Len() {
				return jUnjudged, nil // shorter is zero-filled, longer truncated: documented for arrays, not judged
			}
			return jMustOK, func(s reflect.Value) string {
				for i := 0; i < s.Len(); i++ {
					if byte(s.Index(i).Uint()) != v.Bytes[i] {
						return fmt.Sprintf("stored %v for %x", s.Interface(), v.Bytes)
					}
				}
				return ""
			}
		case iface:
			return jMustOK, nil
		}
		return jMustErr, nil
	case rm.List, rm.Sexp:
		switch {
		case k == reflect.Slice && t.Elem().Kind() != reflect.Uint8, k == reflect.Array && t.Elem().Kind() != reflect.Uint8:
			// element-wise judgement
			elemVer := jMustOK
			for _, kid := range v.Kids {
				ver, _ := c17Judge(kid, t.Elem())
				if ver == jMustErr {
					return jMustErr, nil
				}
				if ver == jUnjudged {
					elemVer = jUnjudged
				}
			}
			if k == reflect.Array && len(v.Kids) != t.Len() {
				return jUnjudged, nil
			}
			if elemVer == jUnjudged {
				return jUnjudged, nil
			}
			return jMustOK, func(s reflect.Value) string {
				if s.Len() != len(v.Kids) {
					return fmt.Sprintf("stored %d elements for %d", s.Len(), len(v.Kids))
				}
				for i, kid := range v.Kids {
					_, chk := c17Judge(kid, t.Elem())
					if chk != nil {
						if d := chk(s.Index(i)); d != "" {
							return fmt.Sprintf("[%d]: %s", i, d)
						}
					}
				}
				return ""
			}
		case iface:
			return jMustOK, nil
		case k == reflect.Slice || k == reflect.Array:
			return jUnjudged, nil // list of ints into []byte / [3]byte: not in the documented table
		}
		return jMustErr, nil
	case rm.Struct:
		switch {
		case k == reflect.Map:
			ver := jMustOK
			for _, kid := range v.Kids {
				kv, _ := c17Judge(kid, t.Elem())
				if kv == jMustErr {
					return jMustErr, nil
				}
				if kv == jUnjudged {
					ver = jUnjudged
				}
			}
			return ver, func(s reflect.Value) string {
				// the last occurrence of a repeated field may win; check membership
				for _, kid := range v.Kids {
					mv := s.MapIndex(reflect.ValueOf(kid.Field.Text).Convert(s.Type().Key()))
					if !mv.IsValid() {
						return fmt.Sprintf("field %q missing from the map", kid.Field.Text)
					}
				}
				if s.Len() > len(v.Kids) {
					return "map has more keys than the struct has fields"
				}
				return ""
			}
		case t == reflect.TypeOf(c17Pair{}):
			for _, kid := range v.Kids {
				switch kid.Field.Text {
				case "A", "a":
					if kv, _ := c17Judge(kid, reflect.TypeOf(0)); kv == jMustErr {
						return jMustErr, nil
					}
				case "B", "b":
					if kv, _ := c17Judge(kid, reflect.TypeOf("")); kv == jMustErr {
						return jMustErr, nil
					}
				}
			}
			return jMustOK, func(s reflect.Value) string {
				p := s.Interface().(c17Pair)
				var wantA *big.Int
				var wantB *string
				for _, kid := range v.Kids {
					switch kid.Field.Text {
					case "A", "a":
						wantA = kid.Int
					case "B", "b":
						x := kid.Text
						wantB = &x
					}
				}
				dup := len(v.Kids) == 2 && v.Kids[0].Field.Text == v.Kids[1].Field.Text
				if wantA != nil && !dup && big.NewInt(int64(p.A)).Cmp(wantA) != 0 {
					return fmt.Sprintf("A=%d, struct says %v", p.A, wantA)
				}
				if wantA == nil && p.A != 0 {
					return fmt.Sprintf("A=%d although the struct has no such field", p.A)
				}
				if wantB != nil && p.B != *wantB {
					return fmt.Sprintf("B=%q, struct says %q", p.B, *wantB)
				}
				return ""
			}
		case iface:
			return jMustOK, nil
		case k == reflect.Struct:
			return jUnjudged, nil
		}
		return jMustErr, nil
	}
	return jUnjudged, nil
}

var c17APIs = []string{"Unmarshal(binary)", "Unmarshal(text)", "UnmarshalString", "Decoder.DecodeTo"}

func c17Matrix(c *mc.Ctx) {
	vi := c.Shard("value", len(c17Values))
	ti := c.Pick("target", len(c17Targets))
	api := c.Pick("api", len(c17APIs))
	v := c17Values[vi]
	tg := c17Targets[ti]
	prefill := c.Pick("prefill", 2) == 1
	c.Case(func() string {
		s := fmt.Sprintf("%s of %s into %s", c17APIs[api], v, tg.name)
		if prefill {
			s += " (target already holds another value)"
		}
		return s
	})
	c.Class(tg.name)
	var data []byte
	if api == 0 {
		data = refbin.EncodeStream(rm.Canon{}, []*rm.Value{v})
	} else {
		data = reftext.Print(rm.Canon{}, []*rm.Value{v})
	}
	target := reflect.New(tg.typ)
	if prefill {
		// the target already holds some other value (a reused variable): what it held must not show
		// through. Nulls, and maps/structs (whose members are merged), are left to the fresh-target run.
		if v.Null || !c17Prefill(target.Elem()) {
			c.Skip("no prefilled variant for this cell")
			return
		}
	}
	var err error
	pan := drive.Safe(func() {
		switch api {
		case 0, 1:
			err = ion.Unmarshal(data, target.Interface())
		case 2:
			err = ion.UnmarshalString(string(data), target.Interface())
		default:
			err = ion.NewDecoder(ion.NewReaderBytes(data)).DecodeTo(target.Interface())
		}
	})
	c.Step(1)
	if failPanic(c, pan) {
		return
	}
	verdict, check := c17Judge(v, tg.typ)
	switch {
	case verdict == jMustErr && err == nil:
		c.Fail("missing-error", tg.name+"<-"+v.Type.String(), "%s into %s returned nil and stored %+v", v, tg.name, target.Elem().Interface())
		return
	case verdict == jMustOK && err != nil:
		c.Fail("unexpected-error", tg.name+"<-"+v.Type.String(), "%s into %s failed: %v", v, tg.name, err)
		return
	}
	if err == nil && check != nil {
		var d string
		if p := drive.Safe(func() { d = check(target.Elem()) }); p != "" {
			c.Fail("oracle", "check", "checker failed: %s", p)
			return
		}
		if d != "" {
			c.Fail("value-mismatch", tg.name+"<-"+v.Type.String(), "%s into %s: %s", v, tg.name, d)
			return
		}
	}
	c.Observe(v.String(), api, verdict, err != nil)
	c.Nontrivial()
}

// c17Prefill stores a non-zero value of v's type in v (slices get 5 elements); false when the
// type has no prefilled variant.
func c17Prefill(v reflect.Value) bool {
	switch v.Type() {
	case reflect.TypeOf(ion.Timestamp{}):
		v.Set(reflect.ValueOf(ion.NewTimestamp(time.Date(1977, 7, 7, 7, 7, 7, 0, time.UTC), ion.TimestampPrecisionSecond, ion.TimezoneUTC)))
		return true
	case reflect.TypeOf(ion.Decimal{}):
		v.Set(reflect.ValueOf(*ion.MustParseDecimal("7.5")))
		return true
	case reflect.TypeOf(big.Int{}):
		v.Set(reflect.ValueOf(*big.NewInt(7)))
		return true
	case reflect.TypeOf(ion.SymbolToken{}):
		v.Set(reflect.ValueOf(ion.NewSymbolTokenFromString("junk")))
		return true
	case reflect.TypeOf(time.Time{}):
		v.Set(reflect.ValueOf(time.Unix(7, 0).UTC()))
		return true
	}
	switch v.Kind() {
	case reflect.Bool:
		v.SetBool(true)
	case reflect.Int, reflect.Int8, reflect.Int16, reflect.Int32, reflect.Int64:
		v.SetInt(7)
	case reflect.Uint, reflect.Uint8, reflect.Uint16, reflect.Uint32, reflect.Uint64:
		v.SetUint(7)
	case reflect.Float32, reflect.Float64:
		v.SetFloat(7.5)
	case reflect.String:
		v.SetString("junk")
	case reflect.Interface:
		if v.NumMethod() != 0 {
			return false
		}
		v.Set(reflect.ValueOf("junk"))
	case reflect.Slice:
		s := reflect.MakeSlice(v.Type(), 5, 5)
		for i := 0; i < 5; i++ {
			if !c17Prefill(s.Index(i)) {
				return false
			}
		}
		v.Set(s)
	case reflect.Array:
		for i := 0; i < v.Len(); i++ {
			if !c17Prefill(v.Index(i)) {
				return false
			}
		}
	case reflect.Ptr:
		p := reflect.New(v.Type().Elem())
		if !c17Prefill(p.Elem()) {
			return false
		}
		v.Set(p)
	default:
		return false
	}
	return true
}

// Decoder over a stream of n values yields them one per call, then ErrNoInput.
func c17Stream(c *mc.Ctx) {
	n := c.Shard("n", 4)
	binary := c.Pick("format", 2) == 1
	kinds := []*rm.Value{rm.IntV(1), rm.StrV("s"), rm.ListV(rm.IntV(2)), rm.NullOf(rm.Null), rm.StructV(rm.IntV(3).F("a"))}
	var vals []*rm.Value
	for i := 0; i < n; i++ {
		vals = append(vals, kinds[c.Pick("kind", len(kinds))])
	}
	var data []byte
	if binary {
		data = refbin.EncodeStream(rm.Canon{}, vals)
	} else {
		data = reftext.Print(rm.Canon{}, vals)
	}
	typed := c.Pick("typed", 2) == 1
	c.Case(func() string {
		return fmt.Sprintf("Decoder over %s binary=%v typed=%v", rm.StreamString(vals), binary, typed)
	})
	c.Class("stream")
	var errs []error
	var got []interface{}
	pan := drive.Safe(func() {
		d := ion.NewDecoder(ion.NewReaderBytes(data))
		for i := 0; i < n+2; i++ {
			if typed {
				var x interface{}
				err := d.DecodeTo(&x)
				errs = append(errs, err)
				got = append(got, x)
			} else {
				x, err := d.Decode()
				errs = append(errs, err)
				got = append(got, x)
			}
		}
	})
	c.Step(n + 2)
	if failPanic(c, pan) {
		return
	}
	for i := 0; i < n; i++ {
		if errs[i] != nil {
			c.Fail("unexpected-error", "stream", "value #%d of %d failed: %v", i, n, errs[i])
			return
		}
		img := ionImage(reflect.ValueOf(&got[i]).Elem(), 0, true)
		a, b := vals[i].Clone(), img.Clone()
		sortStructs(a)
		sortStructs(b)
		if d := rm.Diff(a, b); d != "" {
			c.Fail("value-mismatch", "stream", "value #%d decoded as %s, want %s: %s", i, img, vals[i], d)
			return
		}
	}
	for i := n; i < n+2; i++ {
		if errs[i] != ion.ErrNoInput {
			c.Fail("missing-error", "ErrNoInput", "call #%d after %d values returned %v (%v), want ErrNoInput", i, n, errs[i], got[i])
			return
		}
	}
	c.Observe(n)
	c.Nontrivial()
}

// struct-target cells with hand-written expectations: field lookup rules (exact name first, then
// case-insensitive), promoted fields of embedded structs at every depth, unknown fields ignored.
type c17StructCell struct {
	text string
	mk   func() interface{}
	want interface{}
}

var c17StructCells = []c17StructCell{
	{`{P:7,Q:"hello",M:1,N:2,Top:3}`, func() interface{} { return new(c16Deep) }, c16Deep{c16L1: c16L1{c16L2: c16L2{c16L3: c16L3{P: 7, Q: "hello"}, M: 1}, N: 2}, Top: 3}},
	{`{P:7}`, func() interface{} { return new(c16Deep) }, c16Deep{c16L1: c16L1{c16L2: c16L2{c16L3: c16L3{P: 7}}}}},
	{`{Q:"q"}`, func() interface{} { return new(c16Deep) }, c16Deep{c16L1: c16L1{c16L2: c16L2{c16L3: c16L3{Q: "q"}}}}},
	{`{M:5,Top:6}`, func() interface{} { return new(c16Deep) }, c16Deep{c16L1: c16L1{c16L2: c16L2{M: 5}}, Top: 6}},
	{`{Name:"upper",name:"lower"}`, func() interface{} { return new(c16Case) }, c16Case{Name: "upper", Lower: "lower"}},
	{`{name:"lower"}`, func() interface{} { return new(c16Case) }, c16Case{Lower: "lower"}},
	{`{Name:"upper"}`, func() interface{} { return new(c16Case) }, c16Case{Name: "upper"}},
	{`{A:1,B:"b",C:2,D:3}`, func() interface{} { return new(c16Embed) }, c16Embed{c16Inner: c16Inner{A: 1, B: "b"}, C16InnerPtr: &C16InnerPtr{C: 2}, D: 3}},
	{`{D:3,zzz:[1,2,{a:b}]}`, func() interface{} { return new(c16Embed) }, c16Embed{D: 3}},
	{`{r:1,o:2,sym:s,SymDollar:'$5',Clob:{{"c"}},sx:(1 2),Skip:9,Ptr:4}`, func() interface{} { return new(c16Tagged) }, c16Tagged{Renamed: 1, Omit: 2, Sym: "s", SymDollar: "$5", Clob: []byte("c"), Sexp: []int{1, 2}, Ptr: ptrInt(4)}},
	{`{L:[{A:1},{B:"x"}],M:{k:{A:2},n:null},P:{B:"p"},I:[1,"two"]}`, func() interface{} { return new(c16Nested) }, c16Nested{L: []c16Inner{{A: 1}, {B: "x"}}, M: map[string]*c16Inner{"k": {A: 2}, "n": nil}, P: &c16Inner{B: "p"}, I: []interface{}{1, "two"}}},
}

func c17Structs(c *mc.Ctx) {
	cell := c17StructCells[c.Shard("cell", len(c17StructCells))]
	binary := c.Pick("format", 2) == 1
	c.Case(func() string { return fmt.Sprintf("Unmarshal %s into %T (binary=%v)", cell.text, cell.want, binary) })
	c.Class("struct-cells")
	data := []byte(cell.text)
	if binary {
		vals, err := reftext.Parse(data)
		if err != nil {
			c.Fail("oracle", "parse", "%v", err)
			return
		}
		data = refbin.EncodeStream(rm.Canon{}, vals)
	}
	target := cell.mk()
	var err error
	if failPanic(c, drive.Safe(func() { err = ion.Unmarshal(data, target) })) {
		return
	}
	c.Step(1)
	if err != nil {
		c.Fail("unexpected-error", "struct-cell", "%v", err)
		return
	}
	if d := goEqual(reflect.ValueOf(cell.want), reflect.ValueOf(target).Elem(), ""); d != "" {
		c.Fail("value-mismatch", "struct-cell", "stored %+v, want %+v: %s", reflect.ValueOf(target).Elem().Interface(), cell.want, d)
		return
	}
	c.Observe(cell.text, binary)
	c.Nontrivial()
}

// One Decoder, one target variable reused for every value of a stream of lists of 0..3 ints:
// after each DecodeTo the variable holds exactly that list.
func c17Reuse(c *mc.Ctx) {
	kind := c.Shard("target", 4)
	binary := c.Pick("format", 2) == 1
	var vals []*rm.Value
	var lens []int
	next := int64(1)
	for i := 0; i < 3; i++ {
		n := c.Pick("len", 4)
		l := rm.ListV()
		for k := 0; k < n; k++ {
			l.Kids = append(l.Kids, rm.IntV(next))
			next++
		}
		vals = append(vals, l)
		lens = append(lens, n)
	}
	var data []byte
	if binary {
		data = refbin.EncodeStream(rm.Canon{}, vals)
	} else {
		data = reftext.Print(rm.Canon{}, vals)
	}
	names := []string{"[]int", "[]interface{}", "[3]int", "interface{}"}
	c.Case(func() string {
		return fmt.Sprintf("Decoder over %s binary=%v, every value into the same %s variable", rm.StreamString(vals), binary, names[kind])
	})
	c.Class("reuse")
	var target reflect.Value
	switch kind {
	case 0:
		target = reflect.ValueOf(new([]int))
	case 1:
		target = reflect.ValueOf(new([]interface{}))
	case 2:
		target = reflect.ValueOf(new([3]int))
	default:
		target = reflect.ValueOf(new(interface{}))
	}
	var d *ion.Decoder
	if failPanic(c, drive.Safe(func() { d = ion.NewDecoder(ion.NewReaderBytes(data)) })) {
		return
	}
	for i, want := range vals {
		var err error
		if failPanic(c, drive.Safe(func() { err = d.DecodeTo(target.Interface()) })) {
			return
		}
		c.Step(1)
		if err != nil {
			c.Fail("unexpected-error", "reuse", "value #%d: %v", i, err)
			return
		}
		img := ionImage(target.Elem(), 0, true)
		if kind == 2 {
			// an array keeps its length: the remaining elements must be zero
			w := want.Clone()
			for len(w.Kids) < 3 {
				w.Kids = append(w.Kids, rm.IntV(0))
			}
			want = w
		}
		if kind == 3 && len(want.Kids) == 0 && img.Null {
			// Decode of [] into interface{} yields []interface{}(nil) (pinned by the repository's TestDecode):
			// a slice of length 0, which is what the list holds
			continue
		}
		if df := rm.Diff(want, img); df != "" {
			c.Fail("value-mismatch", "reuse:"+names[kind], "value #%d decoded into the reused variable as %s, want %s: %s", i, img, want, df)
			return
		}
	}
	c.Observe(fmt.Sprint(lens), kind)
	c.Nontrivial()
}

// One Decoder, one annotation-wrapper variable reused for a stream of three ints, each with
// none, one or two annotations: after each DecodeTo the wrapper holds that value's annotations.
func c17ReuseAnnot(c *mc.Ctx) {
	kind := c.Shard("wrapper", 3)
	binary := c.Pick("format", 2) == 1
	sets := [][]string{nil, {"a"}, {"a", "b"}}
	var vals []*rm.Value
	var want [][]string
	for i := 0; i < 3; i++ {
		as := sets[c.Pick("annotations", len(sets))]
		v := rm.IntV(int64(i + 1))
		for _, a := range as {
			v = v.A(a)
		}
		vals = append(vals, v)
		want = append(want, as)
	}
	var data []byte
	if binary {
		data = refbin.EncodeStream(rm.Canon{}, vals)
	} else {
		data = reftext.Print(rm.Canon{}, vals)
	}
	names := []string{"struct{Value int; []SymbolToken annotations}", "struct{Value interface{}; []SymbolToken annotations}", "struct{Value interface{}; []string annotations}"}
	c.Case(func() string {
		return fmt.Sprintf("Decoder over %s binary=%v, every value into the same %s variable", rm.StreamString(vals), binary, names[kind])
	})
	c.Class("reuse-annotations")
	var a1 c17AnnInt
	var a2 c17AnnAny
	var a3 c17AnnReadme
	targets := []interface{}{&a1, &a2, &a3}
	var d *ion.Decoder
	if failPanic(c, drive.Safe(func() { d = ion.NewDecoder(ion.NewReaderBytes(data)) })) {
		return
	}
	for i := range vals {
		var err error
		if failPanic(c, drive.Safe(func() { err = d.DecodeTo(targets[kind]) })) {
			return
		}
		c.Step(1)
		if err != nil {
			c.Fail("unexpected-error", "reuse-annotations", "value #%d: %v", i, err)
			return
		}
		var got []string
		var val interface{}
		switch kind {
		case 0:
			val = a1.Value
			for _, t := range a1.Ann {
				got = append(got, drive.SymOf(t).String())
			}
		case 1:
			val = a2.Value
			for _, t := range a2.Ann {
				got = append(got, drive.SymOf(t).String())
			}
		default:
			val = a3.Value
			got = a3.AnyName
		}
		if fmt.Sprint(val) != fmt.Sprint(i+1) {
			c.Fail("value-mismatch", "reuse-annotations:value", "value #%d decoded as %v, want %d", i, val, i+1)
			return
		}
		if len(got) != len(want[i]) || (len(got) > 0 && strings.Join(got, ",") != strings.Join(want[i], ",")) {
			c.Fail("value-mismatch", "reuse-annotations:"+names[kind], "value #%d (%s) decoded into the reused wrapper with annotations %q, want %q", i, vals[i], got, want[i])
			return
		}
	}
	c.Observe(fmt.Sprint(want), kind, binary)
	c.Nontrivial()
}

func c17Body(c *mc.Ctx) {
	switch c.Pick("part", 5) {
	case 4:
		c17ReuseAnnot(c)
	case 0:
		c17Matrix(c)
	case 1:
		c17Stream(c)
	case 2:
		c17Structs(c)
	default:
		c17Reuse(c)
	}
}

func init() {
	mc.Register(&mc.Check{
		ID:    "C17",
		Title: "Unmarshal either fills the target faithfully or returns an error",
		Rule: "the full matrix of 86 Ion values (typed nulls, bools, integers at every Go width boundary ±1 up to 2^100, floats incl. beyond float32 range / inf / NaN / -0, decimals, timestamps, symbols with and without text, strings, lobs of 0/2/3/4 bytes, lists, sexps, structs incl. repeated and unknown fields, annotated values) x 39 target types (every integer width, floats, string, []byte, [3]byte, slices, arrays, maps, a struct, pointers, interface{}, Timestamp, Decimal, big.Int, SymbolToken, time.Time, annotation wrapper structs incl. the README's []string form) x {Unmarshal of binary, Unmarshal of text, UnmarshalString, Decoder.DecodeTo}; plus 11 struct-target cells with hand-written expectations (exact-then-case-insensitive field lookup, promoted fields of embedded structs three levels deep, every tag option, unknown fields) in text and binary; plus a Decoder over every stream of 0..3 values of 5 kinds followed by two extra calls; plus every matrix cell again with a target that already holds another value (scalars, slices of 5 elements, arrays, pointers, interface{}); plus one Decoder filling the same []int / []interface{} / [3]int / interface{} variable from every stream of three lists of 0..3 ints, and the same annotation-wrapper variable (three wrapper types) from every stream of three ints carrying no / one / two annotations. " +
			"Oracle from the documented mapping table: pairs outside the table must return an error; integers that do not fit the width or sign, finite floats beyond float32, textless symbols into string must return an error; pairs inside the table must succeed and the stored value must image back to the Ion value; never a panic; exactly n values then ErrNoInput. Conversions the documentation does not mention (int->float, decimal->number, timestamp->time.Time, typed null of another type, list of ints into []byte, byte arrays of another length) are exercised for panics only. " +
			"non-trivial = the cell was executed and judged; distinct = distinct (target, verdict, outcome) digests",
		Bounds:      map[string]string{"quick": "the whole matrix", "thorough": "the whole matrix"},
		Assumptions: []string{"the godoc mapping table of Unmarshal is the specification of which pairs are compatible"},
		Body:        c17Body,
		Tiers:       map[string]mc.Tier{"quick": {}, "thorough": {}},
	})
}
