package checks

import (
	"bytes"
	"errors"
	"fmt"
	"io"
	"strings"

	"github.com/amzn/ion-go/ion"

	"verif/internal/drive"
	"verif/internal/mc"
	"verif/internal/refbin"
	rm "verif/internal/refmodel"
	"verif/internal/reftext"
)

// C19 — results do not depend on I/O chunking, and I/O failures are reported.

var errInjected = errors.New("injected I/O failure")

var c19FaultErrs = []error{errInjected, io.ErrUnexpectedEOF, io.ErrClosedPipe, io.ErrNoProgress}

// planReader delivers data cut at the given offsets; optionally returns the last chunk
// together with io.EOF; optionally fails (persistently) once failAt bytes were delivered.
type planReader struct {
	data    []byte
	pos     int
	cuts    map[int]bool
	single  bool // one byte per Read
	eofWith bool
	failAt  int // -1: never
	failErr error
	once    bool // the failure is transient: reported once, then the data continues
	failed  bool
	reads   int
}

func (r *planReader) Read(p []byte) (int, error) {
	r.reads++
	if r.failAt >= 0 && r.pos >= r.failAt && !(r.once && r.failed) {
		r.failed = true
		if r.failErr != nil {
			return 0, r.failErr
		}
		return 0, errInjected
	}
	if r.pos >= len(r.data) {
		return 0, io.EOF
	}
	if len(p) == 0 {
		return 0, nil
	}
	end := len(r.data)
	if r.single {
		end = r.pos + 1
	} else {
		for i := r.pos + 1; i < len(r.data); i++ {
			if r.cuts[i] {
				end = i
				break
			}
		}
	}
	if r.failAt >= 0 && end > r.failAt && !(r.once && r.failed) {
		end = r.failAt
	}
	if end-r.pos > len(p) {
		end = r.pos + len(p)
	}
	n := copy(p, r.data[r.pos:end])
	r.pos += n
	if r.pos == len(r.data) && r.eofWith && (r.failAt < 0 || (r.once && r.failed)) {
		return n, io.EOF
	}
	return n, nil
}

type c19Doc struct {
	name string
	data []byte
}

var c19ReaderDocs = func() []c19Doc {
	var out []c19Doc
	txt := func(name, s string) { out = append(out, c19Doc{name, []byte(s)}) }
	// format sniff on very short inputs
	for _, s := range []string{"", "1", "ab", "a b", "null", "\xe0", "\xe0\x01", "\xe0\x01\x00"} {
		txt("sniff", s)
	}
	txt("crlf", "a\r\nb\r\n[1,\r\n2]")
	txt("crlf-in-long-string", "'''a\r\nb\rc''' {{'''d\r\ne'''}} \"f\\\r\ng\"")
	txt("inf", "+inf -inf nan (+inf - inf +in)")
	txt("long-strings", "'''ab''' '''cd''' 'q' '''e'''\n''''''")
	txt("lob", "{{ aGVsbG8= }} {{\"clob\"}} {{ '''a''' '''b''' }}")
	txt("annot", "a::b ::c:: 1 a :: {f: g::2}")
	txt("numbers", "1234 0x1F 0b101 1.5 1d3 1e3 -0. 12_3")
	txt("timestamps", "2000T 2000-01T 2000-01-02 2000-01-02T03:04Z 2000-01-02T03:04:05.678+01:30")
	txt("comments", "1 /* c */ 2 // d\n3 /**/4")
	txt("symbols", "$ion_1_0 $ion_symbol_table::{symbols:[\"s\"]} $10 'q w' null.int true")
	txt("nested", "[(a {b:[c,(d)]}) ,1] {x:{y:{z:1}}}")
	txt("escapes", "\"a\\nb\\x41\\u0042\\U00000043\\\n\" '\\''")
	bin := func(name string, vals ...*rm.Value) {
		out = append(out, c19Doc{name, refbin.EncodeStream(rm.Canon{}, vals)})
	}
	bin("bin-empty")
	bin("bin-int", rm.IntV(5))
	bin("bin-scalars", rm.IntV(-300), rm.StrV("hello"), rm.SymV("sym"), rm.FloatV(1.5), rm.BoolV(true), rm.NullOf(rm.List))
	bin("bin-annot", rm.StrV(strings.Repeat("x", 20)).A("a", "b"), rm.IntV(1))
	bin("bin-nested", rm.ListV(rm.StructV(rm.SexpV(rm.IntV(1)).F("f"), rm.BlobV([]byte{1, 2, 3}).F("g"))), rm.IntV(2))
	bin("bin-ts", rm.TSV(rm.TS{Year: 2000, Month: 1, Day: 2, Hour: 3, Minute: 4, Second: 5, Prec: rm.PSecond, FracDigits: 3, FracCoef: bigOf(678), OffsetKnown: true, OffsetMin: 90}), rm.DecV(bigOf(12345), -3, false))
	// values straddling the 4096-byte bufio buffer
	big := strings.Repeat("y", 4090)
	txt("straddle-text", "\""+big+"\" [1,2,3] 'sym' {{ aGVsbG8= }} 2000-01-02T03:04:05Z")
	bin("straddle-bin", rm.StrV(big), rm.ListV(rm.IntV(1), rm.StrV("abc")), rm.SymV("sym"), rm.BlobV([]byte("hello")))
	return out
}()

func c19Reader(c *mc.Ctx) {
	d := c19ReaderDocs[c.Shard("doc", len(c19ReaderDocs))]
	n := len(d.data)
	pr := &planReader{data: d.data, cuts: map[int]bool{}, failAt: -1}
	mode := c.Pick("delivery", 3) // 0 planned cuts, 1 one byte per Read, 2 whole
	var cutList []int
	switch mode {
	case 0:
		if n <= 12 {
			for i := 1; i < n; i++ {
				if c.Pick("cut", 2) == 1 {
					pr.cuts[i] = true
					cutList = append(cutList, i)
				}
			}
		} else {
			// every chunking with at most `bound` split points; around the buffer boundary and the
			// start/end every offset is a candidate, elsewhere every 97th (long filler)
			for i := 1; i < n; i++ {
				if n > 200 && i > 40 && i < n-60 && (i < 4080 || i > 4110) && i%97 != 0 {
					continue
				}
				if c.Dev("cut", 2) == 1 {
					pr.cuts[i] = true
					cutList = append(cutList, i)
				}
			}
		}
	case 1:
		pr.single = true
	}
	pr.eofWith = c.Pick("eof-with-data", 2) == 1
	fault := c.Pick("fault", 2) == 1
	if fault {
		if n > 200 {
			offs := []int{0, 1, 3, 4, 5, 100, 4095, 4096, 4097, n - 1, n}
			pr.failAt = offs[c.Pick("fail-at", len(offs))]
		} else {
			pr.failAt = c.Pick("fail-at", n+1)
		}
		// the error value itself: an opaque error, and the ones the standard library's own readers
		// return for a stream cut short (gzip, HTTP bodies: io.ErrUnexpectedEOF) or a closed pipe
		// (with planned cuts the opaque error only: the error value and the cut positions do not interact)
		if mode != 0 {
			pr.failErr = c19FaultErrs[c.Pick("error-value", len(c19FaultErrs))]
			// a transient failure: one Read reports the error, later Reads deliver the rest (a
			// peek that forgets the error it was given lets the traversal run on as if nothing happened)
			pr.once = c.Pick("transient", 2) == 1
		}
	}
	c.Case(func() string {
		return fmt.Sprintf("reader doc=%s (%d bytes: %q) delivery=%d cuts=%v eofWithData=%v failAt=%d failWith=%v transient=%v", d.name, n, clipBytes(d.data, 60), mode, cutList, pr.eofWith, pr.failAt, pr.failErr, pr.once)
	})
	c.Class("reader/" + d.name)
	// whole-buffer baseline
	base, _, berr, pan := readBack(d.data, nil)
	if failPanic(c, pan) {
		return
	}
	var got []*rm.Value
	var gerr error
	calls := 0
	pan = drive.Safe(func() {
		r := ion.NewReader(pr)
		got, calls, gerr = drive.ReadAll(r)
	})
	c.Step(calls + pr.reads)
	if failPanic(c, pan) {
		return
	}
	if fault {
		if gerr == nil {
			c.Fail("missing-error", "read-fault", "the io.Reader failed after %d bytes but the traversal ended cleanly with %s", pr.failAt, rm.StreamString(got))
			return
		}
		c.Observe("fault-reported", mode, fmt.Sprint(cutList), pr.eofWith, pr.failAt)
		c.Nontrivial()
		return
	}
	if (gerr == nil) != (berr == nil) {
		c.Fail("value-mismatch", "chunking:error", "whole-buffer traversal error=%v, chunked traversal error=%v", berr, gerr)
		return
	}
	if gerr != nil && errKey(gerr) != errKey(berr) {
		c.Fail("value-mismatch", "chunking:error-class", "whole-buffer error %v, chunked error %v", berr, gerr)
		return
	}
	if df := rm.DiffStreams(base, got); df != "" {
		c.Fail("value-mismatch", "chunking:"+diffKey(df), "whole buffer gives %s, chunked gives %s: %s", rm.StreamString(base), rm.StreamString(got), df)
		return
	}
	c.Observe(len(got), gerr != nil, mode, fmt.Sprint(cutList), pr.eofWith)
	c.Nontrivial()
}

// faultWriter fails persistently from write call number failAt on.
type faultWriter struct {
	buf     bytes.Buffer
	calls   int
	failAt  int
	partial bool // the failing call accepts half of its bytes before reporting the error
	once    bool // only that one call fails; later writes would be accepted again
	failed  bool
}

func (w *faultWriter) Write(p []byte) (int, error) {
	idx := w.calls
	w.calls++
	if w.failAt >= 0 && idx >= w.failAt && !(w.once && w.failed) {
		if w.partial && !w.failed && len(p) > 1 {
			w.failed = true
			w.buf.Write(p[:len(p)/2])
			return len(p) / 2, errInjected
		}
		w.failed = true
		return 0, errInjected
	}
	return w.buf.Write(p)
}

var c19WriterDocs = func() [][]*rm.Value {
	reps := genReps
	var out [][]*rm.Value
	for _, r := range reps {
		out = append(out, []*rm.Value{r})
	}
	out = append(out,
		[]*rm.Value{rm.StructV(rm.ClobV([]byte("c")).F("f"), rm.BlobV([]byte("bb")).A("a").F("g")), rm.IntV(1)},
		[]*rm.Value{rm.ListV(rm.BlobV([]byte("hello world")), rm.ClobV([]byte("x\"y"))), rm.SexpV(rm.StrV("s"), rm.SymV("t"))},
		[]*rm.Value{rm.IntV(1), rm.StrV("two"), rm.SymV("three").A("an")},
	)
	for i, s := range genShapes3 {
		if i%3 == 0 {
			out = append(out, []*rm.Value{s, rm.IntV(7)})
		}
	}
	return out
}()

var c19Probe = []wcall{c12Alphabet[0], c12Alphabet[1], c12Alphabet[6], c12Alphabet[8], c12Alphabet[9], c12Alphabet[10], c12Alphabet[7]}

func c19Writer(c *mc.Ctx) {
	vals := c19WriterDocs[c.Shard("doc", len(c19WriterDocs))]
	mode := c.Pick("mode", len(c19Modes))
	syms := refbin.CollectSymbols(vals)
	// fault-free run: reference output and number of write calls
	clean := &faultWriter{failAt: -1}
	if failPanic(c, drive.Safe(func() {
		w := newWriterTo(mode, clean, syms)
		drive.WriteStream(w, vals, nil)
	})) {
		return
	}
	total := clean.calls
	if total == 0 {
		c.Skip("no write calls")
		return
	}
	failAt := c.Pick("fail-at", total)
	partial := c.Pick("partial", 2) == 1
	probeFirst := c.Pick("first-probe", len(c19Probe))
	// a transient failure: the io.Writer recovers after the failed call. The Writer must not: the
	// bytes it lost are gone, so everything after the first error still has to fail
	once := c.Pick("transient", 2) == 1
	c.Case(func() string {
		return fmt.Sprintf("writer mode=%s values=%s fail at write call %d of %d partial=%v transient=%v then %s", c19Modes[mode], rm.StreamString(vals), failAt, total, partial, once, c19Probe[probeFirst].name)
	})
	c.Class("writer/" + c19Modes[mode])
	fw := &faultWriter{failAt: failAt, partial: partial, once: once}
	var names []string
	var errs []error
	var probeNames []string
	var probeErrs []error
	pan := drive.Safe(func() {
		w := newWriterTo(mode, fw, syms)
		o := &drive.WriteOpts{OnCall: func(name string, err error) { names = append(names, name); errs = append(errs, err) }}
		// keep going after errors: the property is about every later call
		for _, v := range vals {
			writeAll(w, v, o)
		}
		o.OnCall("Finish", w.Finish())
		// every probe gets to be the first call after the failed stream (a probe that itself writes
		// would otherwise re-discover the failure on behalf of the ones after it)
		for i := range c19Probe {
			p := c19Probe[(probeFirst+i)%len(c19Probe)]
			probeNames = append(probeNames, p.name)
			probeErrs = append(probeErrs, p.do(w))
		}
	})
	c.Step(len(names) + len(probeNames))
	if failPanic(c, pan) {
		return
	}
	first := -1
	for i, e := range errs {
		if e != nil {
			first = i
			break
		}
	}
	if first < 0 {
		c.Fail("missing-error", c19Modes[mode]+":swallowed", "write call %d of %d failed but every Writer call including Finish returned nil", failAt, total)
		return
	}
	for i := first + 1; i < len(errs); i++ {
		if errs[i] == nil {
			c.Fail("not-sticky", c19Modes[mode]+":"+names[first]+"->"+names[i], "call #%d %s reported the failure but later call #%d %s returned nil", first, names[first], i, names[i])
			return
		}
	}
	for i, e := range probeErrs {
		if e == nil {
			c.Fail("not-sticky", c19Modes[mode]+":after-Finish->"+probeNames[i], "after the failed stream, %s returned nil", probeNames[i])
			return
		}
	}
	if !bytes.HasPrefix(clean.buf.Bytes(), fw.buf.Bytes()) {
		c.Fail("invalid-output", c19Modes[mode]+":not-a-prefix", "accepted bytes %q are not a prefix of the fault-free output %q", clipBytes(fw.buf.Bytes(), 80), clipBytes(clean.buf.Bytes(), 80))
		return
	}
	c.Observe(first, len(errs), failAt, partial, fmt.Sprintf("%x", clipBytes(fw.buf.Bytes(), 32)))
	c.Nontrivial()
}

// writeAll issues the calls for v and continues after errors (unlike drive.WriteValue).
func writeAll(w ion.Writer, v *rm.Value, o *drive.WriteOpts) {
	if v.Type.IsContainer() && !v.Null {
		shell := *v
		shell.Kids = nil
		// field name + annotations + Begin
		if v.Field != nil {
			o.OnCall("FieldName", w.FieldName(drive.Token(*v.Field)))
		}
		for _, a := range v.Annots {
			o.OnCall("Annotation", w.Annotation(drive.Token(a)))
		}
		switch v.Type {
		case rm.List:
			o.OnCall("BeginList", w.BeginList())
		case rm.Sexp:
			o.OnCall("BeginSexp", w.BeginSexp())
		default:
			o.OnCall("BeginStruct", w.BeginStruct())
		}
		for _, k := range v.Kids {
			writeAll(w, k, o)
		}
		switch v.Type {
		case rm.List:
			o.OnCall("EndList", w.EndList())
		case rm.Sexp:
			o.OnCall("EndSexp", w.EndSexp())
		default:
			o.OnCall("EndStruct", w.EndStruct())
		}
		return
	}
	drive.WriteValue(w, v, o)
}

var c19Modes = []string{"text", "pretty", "binary", "text-quiet", "binary-fixed-table", "text-imports", "binary-imports"}

func newWriterTo(mode int, out io.Writer, syms []string) ion.Writer {
	switch mode {
	case 0:
		return ion.NewTextWriter(out)
	case 1:
		return ion.NewTextWriterOpts(out, ion.TextWriterPretty)
	case 3:
		return ion.NewTextWriterOpts(out, ion.TextWriterQuietFinish)
	case 4:
		// a table that already holds every symbol of the document, written lazily before the first value
		return ion.NewBinaryWriterLST(out, ion.NewLocalSymbolTable(nil, syms))
	case 5:
		// constructed over a shared table: the text writer emits a symbol table before the first value
		return ion.NewTextWriter(out, genImport())
	case 6:
		return ion.NewBinaryWriter(out, genImport())
	}
	return ion.NewBinaryWriter(out)
}

func c19Body(c *mc.Ctx) {
	if c.Pick("side", 2) == 0 {
		c19Reader(c)
	} else {
		c19Writer(c)
	}
}

func init() {
	_ = reftext.Parse
	mc.Register(&mc.Check{
		ID:    "C19",
		Title: "Results do not depend on I/O chunking, and I/O failures are reported",
		Rule: "Reader side: 30 documents chosen for their lookahead (format sniff on 0..4-byte inputs, CRLF, +inf/-inf/nan, concatenated long strings, lobs, ::, number and timestamp scans, comments, version markers and symbol tables, escapes with line continuation, annotated binary values, values straddling the 4096-byte bufio buffer) in text and binary, delivered by an instrumented io.Reader whose every Read answer is an explorer choice: ALL 2^(n-1) chunkings for n<=12 bytes, every chunking with <=d split points for longer documents, one byte per Read, the whole buffer; the last chunk with and without io.EOF; and a persistent read failure injected after EVERY byte offset 0..n. " +
			"Oracle: chunked traversal = whole-buffer traversal (values and error class); a failed read never ends in a clean end of data. Writer side: 60 value sequences (every token-class representative, lobs, nested containers, shapes) x 3 writer modes over an instrumented io.Writer failing persistently at EVERY write-call index (plain and short-write-plus-error): some call up to and including Finish returns an error, every later call and seven probe calls after Finish return errors, and the accepted bytes are a prefix of the fault-free output. " +
			"non-trivial = the comparison / all error-propagation clauses were evaluated; distinct = distinct (side, document, outcome) digests",
		Bounds:      map[string]string{"quick": "d<=2 split points on long documents", "thorough": "d<=3"},
		Assumptions: []string{"bufio's own buffering sits between the instrumented reader and ion-go (as in NewReader)", "whether the reported error wraps the injected one is not compared"},
		Body:        c19Body,
		Tiers:       map[string]mc.Tier{"quick": {Bound: 2}, "thorough": {Bound: 3}},
	})
}
