package checks

import (
	"fmt"

	"verif/internal/drive"
	"verif/internal/mc"
	"verif/internal/refbin"
	rm "verif/internal/refmodel"
)

// C03 — the binary reader decodes every valid encoding to exactly its value.
func c03Body(c *mc.Ctx) {
	var d doc
	boundary := false
	switch c.Pick("source", 4) {
	case 0:
		docs := corpus("full")
		d = docs[c.Shard("doc", len(docs))]
	case 1:
		docs := corpus("reps")
		d = docs[c.Shard("doc", len(docs))]
	case 3:
		// the representatives again behind a NOP pad sized so that the Reader's internal 4096-byte
		// buffer ends at every offset of the encoding in turn
		docs := corpus("reps")
		d = docs[c.Shard("doc", len(docs))]
		boundary = true
	default:
		// the writer-side generator (pairs, triples, symbol-count boundaries) as reader input
		vals, class := genValues(c, c.Tier == "thorough")
		if hasSystemShape(vals) {
			c.Skip("system value shape")
			return
		}
		d = doc{class, vals}
	}
	for _, v := range d.vals {
		if !drive.Representable(v) {
			c.Skip("not representable in the Go API")
			return
		}
	}
	data := refbin.EncodeStream(c, d.vals)
	if boundary && len(data) > 5 {
		// BVM, then one NOP pad (tag 0E + 2-byte VarUInt length + zeros), then the rest
		rest := data[4:]
		n := len(rest) - 1
		if n > 48 {
			n = 48
		}
		k := 1 + c.Pick("buffer-ends-after", n)
		padLen := bufioSize - k - 4 - 3
		pad := append([]byte{0x0E, byte(padLen >> 7), byte(padLen&0x7F) | 0x80}, make([]byte, padLen)...)
		data = append(append(append([]byte{}, data[:4]...), pad...), rest...)
	}
	c.Case(func() string {
		if boundary {
			return fmt.Sprintf("doc=%s behind a NOP pad, %d bytes in all, tail=%x", rm.StreamString(d.vals), len(data), data[len(data)-min(len(data), 60):])
		}
		return fmt.Sprintf("doc=%s bytes=%x", rm.StreamString(d.vals), clipBytes(data, 80))
	})
	c.Class(d.name)
	got, calls, err, pan := readBack(data, nil)
	c.Step(calls)
	if failPanic(c, pan) {
		return
	}
	if err != nil {
		c.Fail("unexpected-error", errKey(err), "reader rejected a valid encoding: %v", err)
		return
	}
	if df := rm.DiffStreams(d.vals, got); df != "" {
		c.Fail("value-mismatch", diffKey(df), "expected %s got %s: %s", rm.StreamString(d.vals), rm.StreamString(got), df)
		return
	}
	if boundary {
		c.Observe(fmt.Sprintf("%x", data[len(data)-min(len(data), 64):]), len(data))
	} else {
		c.Observe(fmt.Sprintf("%x", clipBytes(data, 64)))
	}
	c.Nontrivial()
}

func clipBytes(b []byte, n int) []byte {
	if len(b) > n {
		return b[:n]
	}
	return b
}

func init() {
	mc.Register(&mc.Check{
		ID:    "C03",
		Title: "The binary reader decodes every valid binary encoding to exactly its value",
		Rule: "every document of the corpus and of the C01 value-sequence generator (each catalogue scalar at top level / annotated / in list, sexp and struct under each field-name class; every token-class representative x annotation set x field name; all container shapes <=4 nodes depth <=3; boundary payload lengths 0/1/13/14/127/128/16383/16384 per container kind and under an annotation wrapper) " +
			"x every encoding the independent spec-derived encoder produces with at most d deviations from canonical (inline vs VarUInt length, padded VarUInts, leading zero bytes in magnitudes/coefficients/SIDs, float32 vs float64, explicit zero coefficients, NOP pads of 1/2/17 bytes at every position incl. as struct fields, sorted-struct form, repeated version marker + LST); " +
			"Fourth layer: every representative document in every such encoding behind a NOP pad sized so that the Reader's 4096-byte buffer ends after each of the first 48 bytes of the encoding in turn. " +
			"non-trivial = the real Reader's full traversal was compared value-by-value with the model; distinct = distinct (document, encoded bytes prefix) digests",
		Bounds:      map[string]string{"quick": "d<=1 on all documents, d<=2 on the representative layer", "thorough": "d<=2 on all documents, d<=3 on representatives"},
		Assumptions: []string{"refbin encoder/decoder and refmodel equality are the trusted reference (cross-checked by selfcheck)", "values the Go API cannot carry (decimal exponent beyond int32) are out of domain"},
		Body:        c03Body,
		Tiers:       map[string]mc.Tier{"quick": {Bound: 1}, "thorough": {Bound: 2}},
	})
	mc.RegisterSelfcheck("refbin-roundtrip", func() error {
		body := func(c *mc.Ctx) {
			docs := corpus("full")
			d := docs[c.Pick("doc", len(docs))]
			data := refbin.EncodeStream(c, d.vals)
			got, _, err := refDecodeBinary(data, nil)
			if err != nil {
				c.Fail("oracle", "decode", "refbin rejects its own encoding of %s: %v (%x)", d, err, clipBytes(data, 64))
				return
			}
			if df := rm.DiffStreams(d.vals, got); df != "" {
				c.Fail("oracle", "diff", "refbin round trip of %s: %s", d, df)
			}
		}
		res := mc.Explore(mc.Config{Bound: 1, MaxShrink: 3}, body)
		if res.Internal != "" {
			return fmt.Errorf("%s", res.Internal)
		}
		if len(res.Violations) > 0 {
			v := res.Violations[0]
			return fmt.Errorf("%d oracle disagreements, first: %s", res.Failing, v.Failure.Detail)
		}
		fmt.Printf("  refbin: %d encodings decoded back to their model\n", res.Execs)
		return nil
	})
}
