package checks

import (
	"bytes"
	"fmt"
	"strings"

	"github.com/amzn/ion-go/ion"

	"verif/internal/drive"
	"verif/internal/mc"
	"verif/internal/refbin"
	rm "verif/internal/refmodel"
	"verif/internal/refsym"
	"verif/internal/reftext"
)

// C05 — copying a Reader into a Writer preserves data across formats and symbol tables.

// text-only extra events: symbols by text, including text shaped like $N
var c05TextEvents = []c10Event{
	{"texts[a,'$5',name::b,{c:'$10'}]", func() []*rm.Value {
		q := rm.SymV("$5")
		q.Sym.Quoted = true
		q10 := rm.SymV("$10")
		q10.Sym.Quoted = true
		return []*rm.Value{rm.SymV("a"), q, rm.SymV("b").A("name"), rm.StructV(q10.F("c"))}
	}},
	{"LST[a,b] then texts", func() []*rm.Value {
		return []*rm.Value{c10LST(nil, "a", "b"), rm.ListV(rm.SymV("b"), rm.SymTok(rm.NoText(10)), rm.SymV("zz"))}
	}},
}

// lenientSymDiff compares streams like DiffStreams but lets a symbol whose text the
// source does not know become anything except a *known* text.
func lenientDiff(want, got []*rm.Value) string {
	if len(want) != len(got) {
		return fmt.Sprintf("stream length %d vs %d", len(want), len(got))
	}
	var walk func(a, b *rm.Value, path string) string
	symOK := func(x, y rm.Sym) bool {
		if !x.HasText {
			return !y.HasText
		}
		return y.HasText && y.Text == x.Text
	}
	walk = func(a, b *rm.Value, path string) string {
		if a.Type != b.Type || a.Null != b.Null {
			return rm.Diff(a, b)
		}
		if len(a.Annots) != len(b.Annots) {
			return path + ": annotation count"
		}
		for i := range a.Annots {
			if !symOK(a.Annots[i], b.Annots[i]) {
				return fmt.Sprintf("%s: annotations %v vs %v", path, a.Annots, b.Annots)
			}
		}
		if (a.Field == nil) != (b.Field == nil) || (a.Field != nil && !symOK(*a.Field, *b.Field)) {
			return fmt.Sprintf("%s: field name %v vs %v", path, a.Field, b.Field)
		}
		if a.Type == rm.Symbol && !a.Null {
			if !symOK(a.Sym, b.Sym) {
				return fmt.Sprintf("%s: symbol %v vs %v", path, a.Sym, b.Sym)
			}
			return ""
		}
		if a.Type.IsContainer() {
			if len(a.Kids) != len(b.Kids) {
				return fmt.Sprintf("%s: %d children vs %d", path, len(a.Kids), len(b.Kids))
			}
			for i := range a.Kids {
				if d := walk(a.Kids[i], b.Kids[i], fmt.Sprintf("%s/%d", path, i)); d != "" {
					return d
				}
			}
			return ""
		}
		x, y := *a, *b
		x.Annots, y.Annots, x.Field, y.Field = nil, nil, nil, nil
		return rm.Diff(&x, &y)
	}
	for i := range want {
		if d := walk(want[i], got[i], fmt.Sprintf("#%d", i)); d != "" {
			return d
		}
	}
	return ""
}

func hasUnknownSym(vs []*rm.Value) bool {
	found := false
	var walk func(v *rm.Value)
	walk = func(v *rm.Value) {
		for _, a := range v.Annots {
			if !a.HasText && a.SID != 0 {
				found = true
			}
		}
		if v.Field != nil && !v.Field.HasText && v.Field.SID != 0 {
			found = true
		}
		if v.Type == rm.Symbol && !v.Null && !v.Sym.HasText && v.Sym.SID != 0 {
			found = true
		}
		for _, k := range v.Kids {
			walk(k)
		}
	}
	for _, v := range vs {
		walk(v)
	}
	return found
}

func c05Body(c *mc.Ctx) {
	dst := c.Pick("dst", 3)
	srcBinary := c.Pick("src-format", 2) == 1
	var raw []*rm.Value
	var what string
	var cat c10Cat = c10Catalogs[1] // none
	layer := c.Pick("layer", 3)
	if layer == 0 {
		// L0: every value kind, no symbol-table history
		vals, class := genValues(c, false)
		if hasSystemShape(vals) || !allRepresentable(vals) {
			c.Skip("system value shape / not representable")
			return
		}
		what = class
		if srcBinary {
			// binary source: the reference encoder defines the symbols in one LST
			data := refbin.EncodeStream(rm.Canon{}, vals)
			c05Run(c, data, vals, cat, dst, srcBinary, what)
			return
		}
		data := reftext.Print(rm.Canon{}, vals)
		c05Run(c, data, vals, cat, dst, srcBinary, what)
		return
	}
	// L1: symbol-table histories
	cat = c10Catalogs[c.Pick("catalog", len(c10Catalogs))]
	// the first c05Core events are the original alphabet; the quick tier draws a fourth event from those only
	const c05Core = 21
	events := c10Events
	core := c05Core
	if !srcBinary {
		events = append(append(append([]c10Event{}, c10Events[:c05Core]...), c05TextEvents...), c10Events[c05Core:]...)
		core += len(c05TextEvents)
	}
	var names []string
	maxEvents := 4
	if layer == 2 {
		// L2: the same alphabet up to 3 events, judged only for symbols whose text the source does
		// not know (kept small on purpose: these are the known C05 findings)
		maxEvents = 3
	}
	for i := 0; i < maxEvents; i++ {
		var k int
		if i == 0 {
			k = c.Shard("event", len(events)+1)
		} else if i == 3 && c.Tier != "thorough" {
			k = c.Pick("event", core+1)
		} else {
			k = c.Pick("event", len(events)+1)
		}
		if k == 0 {
			break
		}
		raw = append(raw, events[k-1].vals()...)
		names = append(names, events[k-1].name)
	}
	what = strings.Join(names, "; ")
	var data []byte
	if srcBinary {
		ids := map[string]uint64{}
		for i, s := range refbin.SystemSymbols {
			ids[s] = uint64(i + 1)
		}
		e := &refbin.Encoder{Ch: rm.Canon{}, SID: func(t string) uint64 { return ids[t] }}
		data = append(data, refbin.BVM...)
		for _, v := range raw {
			if v.Type == rm.Symbol && v.Sym.HasText && v.Sym.Text == "$ion_1_0" && len(v.Annots) == 0 {
				data = append(data, refbin.BVM...)
				continue
			}
			data = append(data, e.Value(v)...)
		}
	} else {
		data = reftext.Print(rm.Canon{}, raw)
	}
	var rawParsed []*rm.Value
	var err error
	if srcBinary {
		rawParsed, err = refbin.DecodeRaw(data)
	} else {
		rawParsed, err = reftext.Parse(data)
	}
	if err != nil {
		c.Fail("oracle", "reference-cannot-read", "%v", err)
		return
	}
	res, rerr := refsym.Resolve(rawParsed, cat.ref)
	if rerr != nil || res.Unsure {
		c.Skip("source stream has an error (C10 judges it)")
		return
	}
	if (layer == 2) != hasUnknownSym(res.Values) {
		c.Skip("symbols with unknown text are judged in layer L2 only")
		return
	}
	if hasUnknownSym(res.Values) {
		for _, t := range res.Tables {
			for _, sl := range t.Symbols {
				if !sl.Defined || sl.Text == "" {
					c.Skip("a value uses an undefined local slot (known C10 finding)")
					return
				}
			}
		}
	}
	c05Run(c, data, res.Values, cat, dst, srcBinary, what)
}

func c05Run(c *mc.Ctx, data []byte, want []*rm.Value, cat c10Cat, dst int, srcBinary bool, what string) {
	c.Case(func() string {
		if srcBinary {
			return fmt.Sprintf("src=binary %x catalog=%s [%s] dst=%s", clipBytes(data, 80), cat.name, what, modeNames[dst])
		}
		return fmt.Sprintf("src=text %q catalog=%s [%s] dst=%s", clipBytes(data, 120), cat.name, what, modeNames[dst])
	})
	c.Class(modeNames[dst] + "/" + cat.name)
	// shrinking stays inside the family: the known defect (symbols whose text the source does not
	// know) cannot absorb a new one on ordinary documents
	if hasUnknownSym(want) {
		c.Family("unknown-text")
	} else {
		c.Family("plain")
	}
	var out bytes.Buffer
	var cerr, ferr error
	calls := 0
	pan := drive.Safe(func() {
		r := ion.NewReaderCat(bytes.NewReader(data), ionCatalog(cat.ref))
		w := newWriter(dst, &out)
		cerr = drive.Copy(r, w, &calls)
		if cerr == nil {
			ferr = w.Finish()
		}
	})
	c.Step(calls)
	if failPanic(c, pan) {
		return
	}
	unknown := hasUnknownSym(want)
	if cerr != nil || ferr != nil {
		if unknown {
			// a symbol with unknown text cannot be carried by text; an error is an accepted outcome
			c.Observe("error-on-unknown-text")
			c.Nontrivial()
			return
		}
		c.Fail("unexpected-error", modeNames[dst]+":copy", "copy loop failed on an accepted document: copy=%v finish=%v", cerr, ferr)
		return
	}
	got, _, derr := refDecode(dst, out.Bytes(), nil)
	if derr != nil {
		if unknown {
			c.Fail("invalid-output", modeNames[dst]+":unknown-text-symbol", "copying a symbol with unknown text produced an undecodable stream %q: %v", clipBytes(out.Bytes(), 100), derr)
			return
		}
		c.Fail("invalid-output", modeNames[dst]+":invalid", "output %q is not valid Ion: %v", clipBytes(out.Bytes(), 100), derr)
		return
	}
	if df := lenientDiff(want, got); df != "" {
		c.Fail("value-mismatch", modeNames[dst]+":"+diffKey(df), "source denotes %s, copy denotes %s: %s (output %q)", rm.StreamString(want), rm.StreamString(got), df, clipBytes(out.Bytes(), 100))
		return
	}
	c.Observe(fmt.Sprintf("%x", clipBytes(out.Bytes(), 48)))
	c.Nontrivial()
}

func init() {
	mc.Register(&mc.Check{
		ID:    "C05",
		Title: "Copying a Reader into a Writer preserves data across formats and symbol tables",
		Rule: "source documents written by the REFERENCE printer/encoder in text and binary: (L0) the whole C01 value generator (every scalar x annotation set x context, pairs, shapes, boundary lengths, symbol-count boundaries); (L1) EVERY sequence of <=4 events over the C10 alphabet (version markers, replacing / importing / appending symbol tables with every max_id case, values using boundary SIDs as field name, annotation and symbol value, nested table-shaped structs) plus text-only events with symbols by text including '$5' and '$10', under 5 catalogs (documents that use a symbol whose text the source does not know are judged for sequences of <=3 events only, L2); " +
			"each copied by the documented copy loop (field name, annotations, typed null or value by type, recursing) into a text, pretty and binary Writer. Oracle: the independent decoder reads the output and it must denote the values the reference context machine assigns to the source, symbols compared by text; a symbol whose text the source does not know may end in an error or stay unknown but must not acquire a known text. " +
			"non-trivial = copy finished and the output was decoded and compared; distinct = distinct (destination, catalog, output bytes) digests",
		Bounds:      map[string]string{"quick": "L0 layers A-E; L1 sequences of <=4 events, the fourth drawn from the first 21 (+2 text) events of the 29-event alphabet", "thorough": "L1 sequences of <=4 events over the whole alphabet"},
		Assumptions: []string{"source streams the reference context machine rejects, and tables with undefined local slots (known C10 finding), are out of scope here"},
		Body:        c05Body,
		Tiers:       map[string]mc.Tier{"quick": {}, "thorough": {}},
	})
}
