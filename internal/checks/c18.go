package checks

import (
	"bytes"
	"context"
	"encoding/json"
	"fmt"
	"os"
	"os/exec"
	"path/filepath"
	"reflect"
	"sort"
	"strings"
	"sync"
	"time"

	"github.com/amzn/ion-go/ion"

	"verif/internal/drive"
	"verif/internal/instr"
	"verif/internal/mc"
	rm "verif/internal/refmodel"
	"verif/internal/sched"
)

// C18 — independent readers, writers and marshal calls can run concurrently.

// pointWriter makes every Write a scheduling point (the bytes leave the Writer here).
type pointWriter struct{ buf bytes.Buffer }

func (p *pointWriter) Write(b []byte) (int, error) {
	sched.Point("io.Write")
	n, err := p.buf.Write(b)
	sched.Point("io.Write.done")
	return n, err
}

type c18Item struct {
	ID   string `ion:"id"`
	Name string `ion:"name,symbol"`
	N    []int  `ion:"n"`
}

type c18Scenario struct {
	name    string
	threads func() []func() string // fresh shared objects + per-thread bodies returning their observable result
}

func c18Shared() (ion.SharedSymbolTable, ion.Catalog) {
	sh := ion.NewSharedSymbolTable("shared", 1, []string{"id", "name", "n", "alpha", "beta"})
	return sh, ion.NewCatalog(sh)
}

func c18Read(data []byte, cat ion.Catalog) string {
	r := ion.NewReaderCat(bytes.NewReader(data), cat)
	vals, _, err := drive.ReadAll(r)
	return fmt.Sprintf("%s err=%v maxid=%d", rm.StreamString(vals), err, r.SymbolTable().MaxID())
}

var c18Scenarios = []c18Scenario{
	{"two binary writers + a local symbol table over one SharedSymbolTable", func() []func() string {
		sh, _ := c18Shared()
		w := func(syms ...string) func() string {
			return func() string {
				var out pointWriter
				wr := ion.NewBinaryWriter(&out, sh)
				wr.BeginList()
				for _, s := range syms {
					wr.WriteSymbolFromString(s)
				}
				wr.EndList()
				wr.BeginStruct()
				wr.FieldName(ion.NewSymbolTokenFromString(syms[0]))
				wr.WriteInt(1)
				wr.EndStruct()
				err := wr.Finish()
				return fmt.Sprintf("%x %v", out.buf.Bytes(), err)
			}
		}
		return []func() string{
			w("alpha", "local1", "beta"),
			w("beta", "other", "id", "other"),
			func() string {
				lst := ion.NewLocalSymbolTable([]ion.SharedSymbolTable{sh}, []string{"x"})
				id, _ := lst.FindByName("beta")
				t, _ := lst.FindByID(12)
				return fmt.Sprintf("%d %s %d", id, t, lst.MaxID())
			},
		}
	}},
	{"two readers importing one catalog table with different max_id + a resolver", func() []func() string {
		sh, cat := c18Shared()
		a := []byte(`$ion_symbol_table::{imports:[{name:"shared",version:1,max_id:3}],symbols:["l"]} $10 $12 $13 {$11:$13}`)
		b := []byte(`$ion_symbol_table::{imports:[{name:"shared",version:1,max_id:8}],symbols:["m"]} $14 $17 $18 $10`)
		return []func() string{
			func() string { return c18Read(a, cat) },
			func() string { return c18Read(b, cat) },
			func() string {
				id, ok := sh.FindByName("beta")
				t, ok2 := sh.FindByID(2)
				adj := sh.Adjust(2)
				return fmt.Sprintf("%d %v %s %v %d %d %v", id, ok, t, ok2, sh.MaxID(), adj.MaxID(), adj.Symbols())
			},
		}
	}},
	{"MarshalText / MarshalBinary / Unmarshal of one struct type", func() []func() string {
		sh, _ := c18Shared()
		v := c18Item{ID: "i1", Name: "alpha", N: []int{1, 2}}
		data, _ := ion.MarshalText(v)
		return []func() string{
			func() string { b, err := ion.MarshalText(v); return fmt.Sprintf("%s %v", b, err) },
			func() string { b, err := ion.MarshalBinary(&v, sh); return fmt.Sprintf("%x %v", b, err) },
			func() string {
				var x c18Item
				err := ion.Unmarshal(data, &x)
				return fmt.Sprintf("%+v %v", x, err)
			},
		}
	}},
	{"text reader + text writer + NewLocalSymbolTable over the system table", func() []func() string {
		return []func() string{
			func() string { return c18Read([]byte(`name::{version:imports, $4:$9} $ion_1_0 symbols`), nil) },
			func() string {
				var out pointWriter
				w := ion.NewTextWriter(&out)
				w.Annotation(ion.NewSymbolTokenFromString("name"))
				w.WriteSymbol(ion.SymbolToken{LocalSID: 5})
				w.WriteNullType(ion.StructType)
				w.WriteTimestamp(ion.MustParseTimestamp("2000-01-01T00:00:00.5Z"))
				err := w.Finish()
				return fmt.Sprintf("%s %v", out.buf.Bytes(), err)
			},
			func() string {
				l := ion.NewLocalSymbolTable(nil, []string{"a", "name"})
				id, _ := l.FindByName("name")
				t, _ := ion.V1SystemSymbolTable.FindByID(9)
				return fmt.Sprintf("%d %s %d", id, t, l.MaxID())
			},
		}
	}},
	{"an Encoder, a Decoder and two container-emitting writers", func() []func() string {
		sh, cat := c18Shared()
		src, _ := ion.MarshalBinary([]interface{}{map[string]int{"alpha": 1}, "s"}, sh)
		mk := func(n int) func() string {
			return func() string {
				var out pointWriter
				w := ion.NewBinaryWriter(&out)
				w.BeginList()
				for i := 0; i < n; i++ {
					w.WriteInt(int64(i))
				}
				w.BeginSexp()
				w.WriteString(strings.Repeat("s", n))
				w.EndSexp()
				w.EndList()
				err := w.Finish()
				return fmt.Sprintf("%x %v", out.buf.Bytes(), err)
			}
		}
		return []func() string{
			mk(3), mk(20),
			func() string {
				d := ion.NewDecoder(ion.NewReaderCat(bytes.NewReader(src), cat))
				v, err := d.Decode()
				return fmt.Sprintf("%s %v", ionImage(reflect.ValueOf(&v).Elem(), 0, true), err)
			},
		}
	}},
}

var c18Solo = map[int][]string{}
var c18Written = map[string]bool{}
var c18WrittenOnce sync.Once

// discover runs every scenario serially (each thread order) with recording on: the solo
// results, and the set of locations that are ever written (for the quick tier's reduction).
func c18Discover() {
	ion.VerifAccess = sched.Hook
	for si, sc := range c18Scenarios {
		n := len(sc.threads())
		perms := permutations(n)
		for pi, perm := range perms {
			c18Reset()
			bodies := sc.threads()
			res := make([]string, n)
			for _, ti := range perm {
				t := ti
				s, _ := sched.Run(&mc.Ctx{}, func(string) bool { return false }, -1, func() { res[t] = bodies[t]() })
				for _, a := range s.Accesses {
					if a.Write {
						c18Written[a.Loc] = true
					}
				}
			}
			if pi == 0 {
				c18Solo[si] = res
			}
		}
	}
}

func permutations(n int) [][]int {
	if n == 0 {
		return [][]int{nil}
	}
	var out [][]int
	for _, p := range permutations(n - 1) {
		for i := 0; i <= len(p); i++ {
			q := append(append(append([]int{}, p[:i]...), n-1), p[i:]...)
			out = append(out, q)
		}
	}
	return out
}

func c18Body(c *mc.Ctx) {
	c18WrittenOnce.Do(c18Discover)
	// shard on (scenario, thread that starts): the first pick is free, so enumerating it here is equivalent
	k := c.Shard("scenario-and-first-thread", 3*len(c18Scenarios))
	si, first := k/3, k%3
	sc := c18Scenarios[si]
	c18Reset()
	bodies := sc.threads()
	n := len(bodies)
	res := make([]string, n)
	var fns []func()
	for i := range bodies {
		t := i
		fns = append(fns, func() { res[t] = bodies[t]() })
	}
	// quick: preemption only at points on locations some serial run writes (plus synchronisation and
	// I/O points), up to the bound. thorough: that with one more preemption, and separately EVERY
	// instrumented point with at most 2 preemptions (which also validates the reduction).
	relevant := func(loc string) bool { return c18Written[loc] }
	maxPreempt := 0
	if c.Tier == "thorough" && c.Pick("every-point", 2) == 1 {
		relevant = nil
		maxPreempt = 2
	}
	var s *sched.Sched
	// the schedule goes into the failure detail, not the case: every schedule exposing the same
	// conflict is the same finding
	c.Case(func() string { return sc.name })
	sched1 := func() string {
		if s == nil {
			return ""
		}
		return fmt.Sprintf(" [schedule: thread at each point %v]", s.Switches)
	}
	c.Class(sc.name)
	var pan interface{}
	s, pan = sched.RunLimited(c, relevant, first, maxPreempt, fns...)
	c.Step(len(s.Accesses) + s.Points)
	if s.Deadlock != "" {
		c.Fail("deadlock", "deadlock", "no thread can continue: %s%s", s.Deadlock, sched1())
		return
	}
	if pan != nil {
		c.Fail("panic", "thread", "a thread panicked: %v%s", pan, sched1())
		return
	}
	if cf := s.Conflicts(); len(cf) > 0 && os.Getenv("VERIF_C18_UNMODELLED") == "" {
		var ds []string
		for _, x := range cf {
			ds = append(ds, x.String())
		}
		sort.Strings(ds)
		if dbg := os.Getenv("VERIF_C18_DEBUG"); dbg != "" {
			f, _ := os.OpenFile(dbg, os.O_APPEND|os.O_CREATE|os.O_WRONLY, 0o644)
			fmt.Fprintf(f, "conflict %s schedule %v\n", ds[0], s.Switches)
			defer f.Close()
			for _, a := range s.Accesses {
				if a.Key == cf[0].Key {
					fmt.Fprintf(f, "  access T%d write=%v atomic=%v vc=%v seq=%d\n", a.Thread, a.Write, a.Atomic, a.VC, a.Seq)
				}
			}
		}
		c.Fail("conflict", ds[0], "conflicting unsynchronised accesses: %s%s", strings.Join(ds, "; "), sched1())
		return
	}
	solo := c18Solo[si]
	for i := range res {
		if res[i] != solo[i] {
			c.Fail("value-mismatch", fmt.Sprintf("thread%d", i), "thread %d produced %q when interleaved, %q alone%s", i, clipStr(res[i], 200), clipStr(solo[i], 200), sched1())
			return
		}
	}
	c.Observe(fmt.Sprint(s.Switches))
	c.Nontrivial()
}

// c18Pre generates the instrumentation overlay from /repo's current sources, builds the
// instrumented worker binary and the free-running race-detector binary.
func c18Pre(tier, scratch string) ([]string, error) {
	ovDir := filepath.Join(scratch, "overlay")
	if err := os.MkdirAll(ovDir, 0o755); err != nil {
		return nil, err
	}
	ov, st, err := instr.Generate("/repo/ion", ovDir)
	if err != nil {
		return nil, fmt.Errorf("instrumentation: %v", err)
	}
	sj, _ := json.Marshal(st)
	os.WriteFile(filepath.Join(scratch, "instr-stats.json"), sj, 0o644)
	verif := os.Getenv("VERIF_DIR")
	build := func(out string, args ...string) error {
		a := append([]string{"build", "-tags", "verif"}, args...)
		a = append(a, "-o", out, "./cmd/vp")
		cmd := exec.Command("go", a...)
		cmd.Dir = verif
		cmd.Env = append(os.Environ(), "GOFLAGS=-mod=mod", "GOPROXY=off", "GOSUMDB=off", "GOTOOLCHAIN=local")
		if o, err := cmd.CombinedOutput(); err != nil {
			return fmt.Errorf("go %v: %v\n%s", a, err, o)
		}
		return nil
	}
	inst := filepath.Join(scratch, "vp-instrumented")
	if err := build(inst, "-overlay", ov); err != nil {
		return nil, err
	}
	race := filepath.Join(scratch, "vp-race")
	if err := build(race, "-race"); err != nil {
		return nil, err
	}
	env := []string{"VERIF_WORKER_BIN=" + inst, "VERIF_RACE_BIN=" + race}
	if len(st.Unmodelled) > 0 {
		// synchronisation the scheduler has no model for: without its happens-before edges the
		// conflict monitor would report ordered accesses, so its verdicts are switched off and the
		// outcome oracle, the deadlock check and the race-detector pass decide
		env = append(env, "VERIF_C18_UNMODELLED=1")
	}
	return env, nil
}

// RacePass runs the same scenario bodies uninstrumented as real goroutines (built with -race).
func RacePass(iterations int) int {
	c18FreshTypes = true
	for it := 0; it < iterations; it++ {
		for si, sc := range c18Scenarios {
			solo := make([]string, 0)
			bodies := sc.threads()
			for _, b := range bodies {
				solo = append(solo, b())
			}
			bodies = sc.threads()
			res := make([]string, len(bodies))
			var wg sync.WaitGroup
			start := make(chan struct{})
			for i := range bodies {
				wg.Add(1)
				go func(i int) {
					defer wg.Done()
					<-start
					res[i] = bodies[i]()
				}(i)
			}
			close(start)
			wg.Wait()
			for i := range res {
				if res[i] != solo[i] {
					fmt.Printf("RACE-PASS-MISMATCH scenario=%d thread=%d concurrent=%q alone=%q\n", si, i, clipStr(res[i], 160), clipStr(solo[i], 160))
					return 1
				}
			}
		}
	}
	fmt.Printf("race pass: %d iterations x %d scenarios, outputs equal to solo runs\n", iterations, len(c18Scenarios))
	return 0
}

func c18Post(tier, scratch string, cov map[string]interface{}) ([]*mc.Violation, error) {
	if b, err := os.ReadFile(filepath.Join(scratch, "instr-stats.json")); err == nil {
		var st map[string]interface{}
		json.Unmarshal(b, &st)
		cov["instrumentation"] = st
	}
	race := filepath.Join(scratch, "vp-race")
	iters := "200"
	if tier == "thorough" {
		iters = "2000"
	}
	// the free-running pass cannot recognise a deadlock of real goroutines other than by not
	// finishing; it is given 100x its usual duration and then abandoned. Deadlocks are the explorer's
	// business (deterministically), so an abandoned pass is a note, not a verdict.
	limit := 15 * time.Minute
	if v, err := time.ParseDuration(os.Getenv("VERIF_RACE_LIMIT")); err == nil && v > 0 {
		limit = v // for exercising this path
	}
	ctx, cancel := context.WithTimeout(context.Background(), limit)
	defer cancel()
	cmd := exec.CommandContext(ctx, race, "racepass", iters)
	cmd.Env = append(os.Environ(), "GORACE=halt_on_error=1 exitcode=66")
	out, err := cmd.CombinedOutput()
	if ctx.Err() != nil {
		cov["race_pass"] = map[string]interface{}{"iterations": iters, "note": "abandoned after 15 minutes without finishing (a deadlock of the free-running goroutines?); no verdict taken from it"}
		return nil, nil
	}
	cov["race_pass"] = map[string]interface{}{"iterations": iters, "note": "free-running goroutines under the Go race detector; complement of the exhaustive schedule exploration, not the deciding step", "tail": clipStr(string(out[max0(len(out)-300):]), 300)}
	if err != nil {
		key := "race-detector"
		if strings.Contains(string(out), "RACE-PASS-MISMATCH") {
			key = "output-mismatch"
		} else if strings.Contains(string(out), "concurrent map") {
			key = "concurrent-map"
		}
		loc := raceSite(string(out))
		v := &mc.Violation{
			Failure:        mc.Failure{Class: "race", Key: key + ":" + loc, Detail: clipStr(string(out), 3000)},
			Case:           "free-running race pass",
			Witness:        "free-running race pass: " + loc,
			WitnessFailure: mc.Failure{Class: "race", Key: key + ":" + loc, Detail: clipStr(string(out), 1500)},
			Count:          1,
		}
		return []*mc.Violation{v}, nil
	}
	return nil, nil
}

func max0(i int) int {
	if i < 0 {
		return 0
	}
	return i
}

// raceSite extracts the first ion-go function named in a race report.
func raceSite(out string) string {
	for _, ln := range strings.Split(out, "\n") {
		ln = strings.TrimSpace(ln)
		if strings.HasPrefix(ln, "github.com/amzn/ion-go/") {
			if i := strings.Index(ln, "("); i > 0 {
				ln = ln[:i]
			}
			return ln[strings.LastIndex(ln, "/")+1:]
		}
	}
	return "?"
}

func init() {
	mc.Register(&mc.Check{
		ID:    "C18",
		Title: "Independent readers, writers and marshal calls can run concurrently",
		Rule: "nine scenarios of three threads forced to meet on shared objects or shared helpers (two binary writers and a local symbol table over one SharedSymbolTable; two readers importing one catalog table with different max_id plus a resolver calling Adjust; MarshalText/MarshalBinary/Unmarshal of one struct type, and of a struct type no thread has seen before; text reader, text writer and NewLocalSymbolTable over the system table; an Encoder/Decoder pair and two container-emitting writers; two text writers escaping control characters and formatting numbers plus a reader decoding escapes; decimals and timestamps parsed, computed and formatted in three threads; two binary readers decoding timestamps with local offsets plus a binary writer of timestamps). Package ion is re-instrumented from /repo's current sources on every run: every statement touching a package-level variable or a field of sst/bogusSST/lst/symbolTableBuilder/basicCatalog calls a hook that is a scheduling point and an access record; every Mutex/RWMutex/Once/atomic operation calls a hook that models it (a waiting thread is not enabled; release/acquire pairs are vector-clock happens-before edges); every io.Writer.Write of the scenarios is a scheduling point too. Before every execution the generated VerifReset re-runs all package-level initialisers and zeroes the other package variables, so lazily built package state is cold under every schedule. " +
			"Under a cooperative scheduler ALL schedules with at most d preemptions are enumerated (all serial orders included). Oracles on every schedule: no deadlock (some live thread is always enabled); each thread's observable result equals its result when run alone; the conflict monitor finds no two accesses to the same (object, field) or package variable from different threads, at least one a write, not both atomic, and unordered by happens-before. With no conflicting pair all interleavings are equivalent to a serial order, so the exploration is complete for the harness. If the sources use synchronisation the scheduler has no model for (channels, go statements, WaitGroup, Cond, sync.Map) the monitor's verdicts are switched off (listed in the evidence) and the other oracles decide. The quick tier offers preemption only at points on locations some serial run writes, synchronisation operations and I/O points; the thorough tier does that with one more preemption and also offers preemption at every instrumented point with at most two. A free-running -race pass of the same bodies complements it (hand-offs of a cooperative scheduler are happens-before edges that blind the detector). " +
			"non-trivial = a complete schedule was executed and all oracles evaluated; distinct = distinct (scenario, schedule) digests",
		Bounds:      map[string]string{"quick": "d<=2 preemptions, preemption points on ever-written locations + I/O points", "thorough": "d<=3 preemptions at points on ever-written locations + synchronisation + I/O points, and d<=2 preemptions at EVERY instrumented point"},
		Assumptions: []string{"shared state reachable only through objects of types outside the instrumented set is seen by the free-running race pass only", "Go memory-model effects a cooperative scheduler cannot produce are left to the race pass"},
		Body:        c18Body,
		Pre:         c18Pre,
		Post:        c18Post,
		MaxShrink:   40,
		Tiers:       map[string]mc.Tier{"quick": {Bound: 2}, "thorough": {Bound: 3}},
	})
}
