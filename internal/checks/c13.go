package checks

import (
	"bytes"
	"fmt"
	"math"
	"math/big"

	"github.com/amzn/ion-go/ion"

	"verif/internal/drive"
	"verif/internal/mc"
	"verif/internal/refbin"
	rm "verif/internal/refmodel"
)

// C13 — numbers are never silently truncated, wrapped or rounded.

var c13Boundary = func() []*big.Int {
	seen := map[string]bool{}
	var out []*big.Int
	for k := uint(0); k <= 80; k++ {
		for d := int64(-2); d <= 2; d++ {
			p := new(big.Int).Add(new(big.Int).Lsh(big.NewInt(1), k), big.NewInt(d))
			for _, v := range []*big.Int{p, new(big.Int).Neg(p)} {
				if !seen[v.String()] {
					seen[v.String()] = true
					out = append(out, v)
				}
			}
		}
	}
	return out
}()

// intDocs produces the byte streams that carry integer v: text written by ion-go,
// binary written by ion-go, reference binary with 0/1/2 leading zero bytes, reference text in hex.
func c13IntInput(c *mc.Ctx, v *big.Int) (data []byte, how string, ok bool) {
	switch c.Pick("carrier", 6) {
	case 0, 1:
		mode := []int{0, 2}[c.Pick("wmode", 2)]
		var buf bytes.Buffer
		var err error
		if p := drive.Safe(func() {
			w := newWriter(mode, &buf)
			err = drive.WriteStream(w, []*rm.Value{rm.BigV(v)}, &drive.WriteOpts{IntVia: c.Pick("int.via", 3)})
		}); p != "" {
			c.Fail("panic", drive.PanicSite(p), "writing %v: %s", v, p)
			return nil, "", false
		}
		if err != nil {
			c.Fail("unexpected-error", "write", "writing %v: %v", v, err)
			return nil, "", false
		}
		return buf.Bytes(), "ion-go " + modeNames[mode] + " writer", true
	case 2, 3, 4:
		pad := c.Pick("pad", 3)
		t := byte(0x20)
		if v.Sign() < 0 {
			t = 0x30
		}
		mag := refbin.UintBytes(new(big.Int).Abs(v), pad)
		out := append([]byte{}, refbin.BVM...)
		if len(mag) < 14 {
			out = append(out, t|byte(len(mag)))
		} else {
			out = append(out, t|14)
			out = append(out, refbin.VarUint(uint64(len(mag)), 0)...)
		}
		return append(out, mag...), fmt.Sprintf("reference binary, %d leading zero bytes", pad), true
	default:
		s := new(big.Int).Abs(v).Text(16)
		if v.Sign() < 0 {
			return []byte("-0x" + s), "reference text hex", true
		}
		return []byte("0x" + s), "reference text hex", true
	}
}

func c13Ints(c *mc.Ctx) {
	var v *big.Int
	if c.Pick("set", 2) == 0 {
		v = c13Boundary[c.Shard("boundary", len(c13Boundary))]
	} else {
		n := 1 << 16
		if c.Tier == "thorough" {
			n = 1 << 20
		}
		v = big.NewInt(int64(c.Shard("small", 2*n+1) - n))
	}
	data, how, ok := c13IntInput(c, v)
	if !ok {
		return
	}
	c.Case(func() string { return fmt.Sprintf("int %v via %s (%x)", v, how, clipBytes(data, 40)) })
	c.Class("int/" + how)
	var size ion.IntSize
	var iv *int
	var i64 *int64
	var bi *big.Int
	var es, ei, e64, eb, nerr error
	var next bool
	var typ ion.Type
	if p := drive.Safe(func() {
		r := ion.NewReaderBytes(data)
		next = r.Next()
		nerr = r.Err()
		typ = r.Type()
		size, es = r.IntSize()
		iv, ei = r.IntValue()
		i64, e64 = r.Int64Value()
		bi, eb = r.BigIntValue()
	}); p != "" {
		c.Fail("panic", drive.PanicSite(p), "%s", p)
		return
	}
	c.Step(7)
	if !next || nerr != nil || typ != ion.IntType {
		c.Fail("unexpected-error", "read", "reader did not yield an int: next=%v err=%v type=%v", next, nerr, typ)
		return
	}
	if eb != nil || bi == nil || bi.Cmp(v) != 0 {
		c.Fail("value-mismatch", "BigIntValue", "BigIntValue=%v err=%v want %v", bi, eb, v)
		return
	}
	fits32 := v.IsInt64() && v.Int64() >= math.MinInt32 && v.Int64() <= math.MaxInt32
	fits64 := v.IsInt64()
	if es != nil {
		c.Fail("unexpected-error", "IntSize", "IntSize error %v", es)
		return
	}
	if (size == ion.Int32 && !fits32) || (size == ion.Int64 && !fits64) || size == ion.NullInt {
		c.Fail("value-mismatch", "IntSize", "IntSize=%v for %v", size, v)
		return
	}
	if fits64 {
		if e64 != nil || i64 == nil || *i64 != v.Int64() {
			c.Fail("value-mismatch", "Int64Value", "Int64Value=%v err=%v want %v", deref64(i64), e64, v)
			return
		}
	} else if e64 == nil {
		c.Fail("missing-error", "Int64Value", "Int64Value=%v with nil error for %v", deref64(i64), v)
		return
	}
	if fits32 {
		if ei != nil || iv == nil || int64(*iv) != v.Int64() {
			c.Fail("value-mismatch", "IntValue", "IntValue=%v err=%v want %v", derefInt(iv), ei, v)
			return
		}
	} else if ei == nil && (iv == nil || !fits64 || int64(*iv) != v.Int64()) {
		c.Fail("missing-error", "IntValue", "IntValue=%v with nil error for %v", derefInt(iv), v)
		return
	}
	c.Observe(size, ei != nil, e64 != nil)
	c.Nontrivial()
}

func deref64(p *int64) interface{} {
	if p == nil {
		return nil
	}
	return *p
}
func derefInt(p *int) interface{} {
	if p == nil {
		return nil
	}
	return *p
}

// accessor matrix
type accessor struct {
	name string
	own  []rm.Type
	call func(r ion.Reader) (isNil bool, err error)
}

var c13Accessors = []accessor{
	{"BoolValue", []rm.Type{rm.Bool}, func(r ion.Reader) (bool, error) { v, e := r.BoolValue(); return v == nil, e }},
	{"IntSize", []rm.Type{rm.Int}, func(r ion.Reader) (bool, error) { v, e := r.IntSize(); return v == ion.NullInt, e }},
	{"IntValue", []rm.Type{rm.Int}, func(r ion.Reader) (bool, error) { v, e := r.IntValue(); return v == nil, e }},
	{"Int64Value", []rm.Type{rm.Int}, func(r ion.Reader) (bool, error) { v, e := r.Int64Value(); return v == nil, e }},
	{"BigIntValue", []rm.Type{rm.Int}, func(r ion.Reader) (bool, error) { v, e := r.BigIntValue(); return v == nil, e }},
	{"FloatValue", []rm.Type{rm.Float}, func(r ion.Reader) (bool, error) { v, e := r.FloatValue(); return v == nil, e }},
	{"DecimalValue", []rm.Type{rm.Decimal}, func(r ion.Reader) (bool, error) { v, e := r.DecimalValue(); return v == nil, e }},
	{"TimestampValue", []rm.Type{rm.Timestamp}, func(r ion.Reader) (bool, error) { v, e := r.TimestampValue(); return v == nil, e }},
	{"StringValue", []rm.Type{rm.String}, func(r ion.Reader) (bool, error) { v, e := r.StringValue(); return v == nil, e }},
	{"SymbolValue", []rm.Type{rm.Symbol}, func(r ion.Reader) (bool, error) { v, e := r.SymbolValue(); return v == nil, e }},
	{"ByteValue", []rm.Type{rm.Clob, rm.Blob}, func(r ion.Reader) (bool, error) { v, e := r.ByteValue(); return v == nil, e }},
}

var c13Samples = map[rm.Type]*rm.Value{
	rm.Bool: rm.BoolV(true), rm.Int: rm.IntV(5), rm.Float: rm.FloatV(1.5), rm.Decimal: rm.DecV(big.NewInt(15), -1, false),
	rm.Timestamp: rm.TSV(rm.TS{Year: 2000, Month: 1, Day: 2, Prec: rm.PDay}), rm.Symbol: rm.SymV("s"), rm.String: rm.StrV("s"),
	rm.Clob: rm.ClobV([]byte("c")), rm.Blob: rm.BlobV([]byte("b")), rm.List: rm.ListV(rm.IntV(1)), rm.Sexp: rm.SexpV(rm.IntV(1)), rm.Struct: rm.StructV(rm.IntV(1).F("f")),
}

func c13Matrix(c *mc.Ctx) {
	t := rm.Type(c.Shard("type", 13))
	isNull := c.Pick("null", 2) == 1
	ai := c.Pick("accessor", len(c13Accessors))
	binary := c.Pick("format", 2) == 1
	var v *rm.Value
	if isNull || t == rm.Null {
		v = rm.NullOf(t)
		isNull = true
	} else {
		v = c13Samples[t]
	}
	var data []byte
	if binary {
		data = refbin.EncodeStream(rm.Canon{}, []*rm.Value{v})
	} else {
		data = []byte(v.String())
		if t == rm.Blob && !isNull {
			data = []byte("{{Yg==}}")
		}
		if t == rm.Float && !isNull {
			data = []byte("1.5e0")
		}
	}
	acc := c13Accessors[ai]
	c.Case(func() string { return fmt.Sprintf("%s on %s (binary=%v)", acc.name, v, binary) })
	c.Class("matrix")
	var gotNil bool
	var err, nerr error
	var next bool
	if p := drive.Safe(func() {
		r := ion.NewReaderBytes(data)
		next = r.Next()
		nerr = r.Err()
		gotNil, err = acc.call(r)
	}); p != "" {
		c.Fail("panic", drive.PanicSite(p), "%s", p)
		return
	}
	c.Step(3)
	if !next || nerr != nil {
		c.Fail("unexpected-error", "read", "reader rejected %q: %v", data, nerr)
		return
	}
	own := false
	for _, o := range acc.own {
		if o == t {
			own = true
		}
	}
	switch {
	case !own:
		if err == nil {
			c.Fail("missing-error", acc.name+":wrong-type", "%s on a %v returned no error", acc.name, t)
		}
	case isNull:
		if err != nil || !gotNil {
			c.Fail("value-mismatch", acc.name+":null", "%s on null.%v: nil=%v err=%v (want nil, nil)", acc.name, t, gotNil, err)
		}
	default:
		if err != nil || gotNil {
			c.Fail("value-mismatch", acc.name+":value", "%s on %v: nil=%v err=%v", acc.name, v, gotNil, err)
		}
	}
	c.Observe(gotNil, err != nil)
	c.Nontrivial()
}

var c13Mantissas = func() []uint64 {
	base := []uint64{0, 1, 1 << 28, 1 << 29, 1 << 30, 3 << 28, 7 << 28, (1 << 29) - 1, (1 << 52) - 1, 1 << 51, 1<<51 | 1<<29, 1<<51 | 1<<28, (1<<52 - 1) &^ (1<<29 - 1), (1<<52 - 1) &^ (1<<28 - 1), 1 << 31, 1<<29 | 1}
	return base
}()

func c13Floats(c *mc.Ctx) {
	exp := uint64(c.Shard("exp", 2048))
	mans := c13Mantissas
	var man uint64
	if c.Tier == "thorough" {
		// 256 patterns: every combination of the 4 bits around the float32 cut (bits 27..30), the top bit and 3 low bits
		k := uint64(c.Pick("mant", 256))
		man = (k&0xF)<<27 | (k>>4&1)<<51 | (k>>5&1)<<0 | (k>>6&1)<<26 | (k>>7&1)<<40
	} else {
		man = mans[c.Pick("mant", len(mans))]
	}
	sign := uint64(c.Pick("sign", 2))
	bits := sign<<63 | exp<<52 | man
	f := math.Float64frombits(bits)
	c.Case(func() string { return fmt.Sprintf("float bits %016x (%v)", bits, f) })
	c.Class("float")
	var buf bytes.Buffer
	var err error
	if p := drive.Safe(func() {
		w := ion.NewBinaryWriter(&buf)
		err = w.WriteFloat(f)
		if err == nil {
			err = w.Finish()
		}
	}); p != "" {
		c.Fail("panic", drive.PanicSite(p), "%s", p)
		return
	}
	if err != nil {
		c.Fail("unexpected-error", "WriteFloat", "%v", err)
		return
	}
	out := buf.Bytes()
	ref, _, rerr := refDecodeBinary(out, nil)
	if rerr != nil || len(ref) != 1 || ref[0].Type != rm.Float {
		c.Fail("invalid-output", "float", "binary float output %x: %v", out, rerr)
		return
	}
	want := rm.FloatV(f)
	if d := rm.Diff(want, ref[0]); d != "" {
		c.Fail("value-mismatch", "float-encoding", "WriteFloat stored %016x as %x which denotes %016x", bits, out, math.Float64bits(ref[0].Float))
		return
	}
	got, calls, gerr, pan := readBack(out, nil)
	c.Step(calls + 2)
	if failPanic(c, pan) {
		return
	}
	if gerr != nil || len(got) != 1 {
		c.Fail("unexpected-error", "float-read", "reading %x: %v", out, gerr)
		return
	}
	if d := rm.Diff(want, got[0]); d != "" {
		c.Fail("value-mismatch", "float-read", "wrote %016x, read %016x (bytes %x)", bits, math.Float64bits(got[0].Float), out)
		return
	}
	// text too
	var tb bytes.Buffer
	if p := drive.Safe(func() {
		w := ion.NewTextWriter(&tb)
		err = w.WriteFloat(f)
		if err == nil {
			err = w.Finish()
		}
	}); p != "" {
		c.Fail("panic", drive.PanicSite(p), "%s", p)
		return
	}
	tg, _, terr, pan := readBack(tb.Bytes(), nil)
	if failPanic(c, pan) {
		return
	}
	if err != nil || terr != nil || len(tg) != 1 {
		c.Fail("unexpected-error", "float-text", "text %q: %v %v", tb.String(), err, terr)
		return
	}
	if d := rm.Diff(want, tg[0]); d != "" {
		c.Fail("value-mismatch", "float-text", "wrote %016x as %q, read %016x", bits, tb.String(), math.Float64bits(tg[0].Float))
		return
	}
	c.Observe(len(out), fmt.Sprintf("%x", out[4:]))
	c.Nontrivial()
}

var c13CodecVals = func() []uint64 {
	seen := map[uint64]bool{}
	var out []uint64
	add := func(v uint64) {
		if !seen[v] {
			seen[v] = true
			out = append(out, v)
		}
	}
	for k := uint(0); k <= 64; k++ {
		for d := int64(-2); d <= 2; d++ {
			var p uint64
			if k < 64 {
				p = uint64(1) << k
			}
			add(p + uint64(d))
		}
	}
	for v := uint64(0); v < 300; v++ {
		add(v)
	}
	return out
}()

// multiples of 2^64 (VarUInt) / 2^63 (VarInt) added on top of a codec value in a ten-byte field; 0 = none
var c13Over = []uint64{0, 1, 2, 3, 32, 63}

// c13Codec: ion-go's own encoder and decoder for each integer field are inverse.
func c13Codec(c *mc.Ctx) {
	u := c13CodecVals[c.Shard("v", len(c13CodecVals))]
	kind := c.Pick("codec", 3)
	neg := kind != 0 && c.Pick("neg", 2) == 1
	c.Class("codec")
	c.Case(func() string { return fmt.Sprintf("codec %d value %d neg=%v", kind, u, neg) })
	switch kind {
	case 0:
		b := ion.VerifAppendVarUint(nil, u)
		got, n, err := ion.VerifReadVarUint(b)
		if err != nil || got != u || n != uint64(len(b)) {
			c.Fail("value-mismatch", "varuint", "VarUInt %d -> %x -> %d (%v)", u, b, got, err)
		}
		// the ten-byte spelling of 2^64*k + u does not fit 64 bits: it must be refused, any value returned is a wrap
		if k := c13Over[c.Pick("over", len(c13Over))]; k != 0 {
			b := make([]byte, 10)
			b[0] = byte(u>>63) | byte(k<<1)
			for i := 1; i < 10; i++ {
				b[i] = byte(u>>(7*uint(9-i))) & 0x7F
			}
			b[9] |= 0x80
			got, _, err := ion.VerifReadVarUint(b)
			if err == nil {
				c.Fail("wrapped", "varuint-over", "VarUInt %x (= 2^64*%d + %d) was read as %d", b, k, u, got)
			}
		}
	case 1:
		if u > math.MaxInt64 {
			c.Skip("beyond int64")
			return
		}
		v := int64(u)
		if neg {
			v = -v
		}
		b := ion.VerifAppendVarInt(nil, v)
		got, _, n, err := ion.VerifReadVarInt(b)
		if err != nil || got != v || n != uint64(len(b)) {
			c.Fail("value-mismatch", "varint", "VarInt %d -> %x -> %d (%v)", v, b, got, err)
		}
		// the ten-byte spelling of +-(2^63*k + |v|) does not fit int64
		if k := c13Over[c.Pick("over", len(c13Over))]; k != 0 {
			b := make([]byte, 10)
			b[0] = byte(k)
			if neg {
				b[0] |= 0x40
			}
			for i := 1; i < 10; i++ {
				b[i] = byte(u>>(7*uint(9-i))) & 0x7F
			}
			b[9] |= 0x80
			got, _, _, err := ion.VerifReadVarInt(b)
			if err == nil {
				c.Fail("wrapped", "varint-over", "VarInt %x (magnitude 2^63*%d + %d) was read as %d", b, k, u, got)
			}
		}
	case 2:
		v := new(big.Int).SetUint64(u)
		v.Lsh(v, uint(8*c.Pick("shift", 3)))
		if neg {
			v.Neg(v)
		}
		if v.Sign() == 0 {
			c.Skip("zero has no Int bytes")
			return
		}
		b := ion.VerifAppendBigInt(nil, v)
		got, err := ion.VerifReadBigInt(b)
		if err != nil || got.Cmp(v) != 0 {
			c.Fail("value-mismatch", "bigint", "Int %v -> %x -> %v (%v)", v, b, got, err)
		}
	}
	c.Step(2)
	c.Observe(kind, u, neg)
	c.Nontrivial()
}

// c13BigIDs: symbol IDs and decimal exponents of boundary magnitude through the readers.
func c13Magnitudes(c *mc.Ctx) {
	c.Class("magnitude")
	ms := []int64{1, 126, 127, 128, 16382, 16383, 16384, 2097151, 2097152, 1<<31 - 12, 1 << 31, 1<<32 + 5}
	m := ms[c.Shard("max_id", len(ms))]
	which := c.Pick("sid", 3) // last import slot, first local, one past the end
	sid := 9 + m
	switch which {
	case 1:
		sid = 9 + m + 1
	case 2:
		sid = 9 + m + 2
	}
	lst := rm.StructV(
		rm.ListV(rm.StructV(rm.StrV("big").F("name"), rm.IntV(1).F("version"), rm.IntV(m).F("max_id"))).F("imports"),
		rm.ListV(rm.StrV("local")).F("symbols"),
	).A("$ion_symbol_table")
	use := c.Pick("use", 3)
	var v *rm.Value
	switch use {
	case 0:
		v = rm.SymTok(rm.NoText(sid))
	case 1:
		v = rm.IntV(1).AS(rm.NoText(sid))
	default:
		v = rm.StructV(rm.IntV(1).FS(rm.NoText(sid)))
	}
	ids := map[string]uint64{}
	for i, s := range refbin.SystemSymbols {
		ids[s] = uint64(i + 1)
	}
	e := &refbin.Encoder{Ch: rm.Canon{}, SID: func(t string) uint64 { return ids[t] }}
	data := append([]byte{}, refbin.BVM...)
	data = append(data, e.Value(lst)...)
	data = append(data, e.Value(v)...)
	c.Case(func() string {
		return fmt.Sprintf("import max_id=%d, SID %d used as %d: %x", m, sid, use, clipBytes(data, 80))
	})
	got, calls, err, pan := readBack(data, nil)
	c.Step(calls)
	if failPanic(c, pan) {
		return
	}
	if which == 2 {
		if err == nil {
			c.Fail("missing-error", "sid-beyond-max", "SID %d beyond max_id %d was accepted: %s", sid, 9+m+1, rm.StreamString(got))
		}
		c.Observe("rejected")
		c.Nontrivial()
		return
	}
	if err != nil || len(got) != 1 {
		c.Fail("unexpected-error", "big-sid", "reading SID %d with import max_id %d: %v", sid, m, err)
		return
	}
	var want rm.Sym
	if which == 0 {
		want = rm.NoText(sid)
	} else {
		want = rm.T("local")
	}
	var have rm.Sym
	switch use {
	case 0:
		have = got[0].Sym
	case 1:
		if len(got[0].Annots) == 1 {
			have = got[0].Annots[0]
		}
	default:
		if len(got[0].Kids) == 1 && got[0].Kids[0].Field != nil {
			have = *got[0].Kids[0].Field
		}
	}
	if !have.EqualText(want) || (!want.HasText && have.SID != want.SID) {
		c.Fail("value-mismatch", "big-sid", "SID %d resolved to %v (SID %d), want %v", sid, have, have.SID, want)
		return
	}
	c.Observe(have.String())
	c.Nontrivial()
}

// c13IntEnc is the binary encoding of v with its minimal magnitude.
func c13IntEnc(v *big.Int) []byte {
	t := byte(0x20)
	if v.Sign() < 0 {
		t = 0x30
	}
	mag := new(big.Int).Abs(v).Bytes()
	var out []byte
	if len(mag) < 14 {
		out = append(out, t|byte(len(mag)))
	} else {
		out = append(append(out, t|14), refbin.VarUint(uint64(len(mag)), 0)...)
	}
	return append(out, mag...)
}

// (6) an integer of every byte length 1..20 inside every container form, so that the container's
// body length runs through 2..24 (13, 14 and 15 are where the length encodings change): the
// Reader must hand the integer back exactly.
func c13Containers(c *mc.Ctx) {
	n := 1 + c.Shard("int-bytes", 20)
	v := new(big.Int).Add(new(big.Int).Lsh(big.NewInt(1), uint(8*n-1)), big.NewInt(5))
	if c.Pick("negative", 2) == 1 {
		v.Neg(v)
	}
	enc := c13IntEnc(v)
	form := c.Pick("container", 6)
	forms := []string{"list", "sexp", "struct", "sorted struct (D1)", "annotated", "struct in list"}
	wrap := func(t byte, body []byte) []byte {
		if len(body) < 14 {
			return append([]byte{t<<4 | byte(len(body))}, body...)
		}
		return append(append([]byte{t<<4 | 14}, refbin.VarUint(uint64(len(body)), 0)...), body...)
	}
	var body []byte
	switch form {
	case 0:
		body = wrap(0xB, enc)
	case 1:
		body = wrap(0xC, enc)
	case 2:
		body = wrap(0xD, append([]byte{0x84}, enc...))
	case 3:
		fb := append([]byte{0x84}, enc...)
		body = append(append([]byte{0xD1}, refbin.VarUint(uint64(len(fb)), 0)...), fb...)
	case 4:
		body = wrap(0xE, append([]byte{0x81, 0x84}, enc...))
	default:
		body = wrap(0xB, wrap(0xD, append([]byte{0x84}, enc...)))
	}
	data := append(append(append([]byte{}, refbin.BVM...), body...), 0x21, 0x07)
	c.Case(func() string { return fmt.Sprintf("int %v (%d bytes) in %s: %x", v, n, forms[form], data) })
	c.Class("container/" + forms[form])
	var got []*big.Int
	var err error
	if p := drive.Safe(func() {
		r := ion.NewReaderBytes(data)
		var walk func()
		walk = func() {
			for r.Next() {
				if r.Type() == ion.IntType && !r.IsNull() {
					b, e := r.BigIntValue()
					if e != nil {
						err = e
						return
					}
					got = append(got, b)
				} else if ion.IsContainer(r.Type()) && !r.IsNull() {
					if e := r.StepIn(); e != nil {
						err = e
						return
					}
					walk()
					if e := r.StepOut(); e != nil {
						err = e
						return
					}
				}
			}
		}
		walk()
		if err == nil {
			err = r.Err()
		}
	}); p != "" {
		c.Fail("panic", drive.PanicSite(p), "%s", p)
		return
	}
	c.Step(6)
	if err != nil {
		c.Fail("unexpected-error", "container", "reader rejects a valid encoding: %v", err)
		return
	}
	if len(got) != 2 || got[0].Cmp(v) != 0 || got[1].Cmp(big.NewInt(7)) != 0 {
		c.Fail("value-mismatch", "container:"+forms[form], "integers read %v, want [%v 7]", got, v)
		return
	}
	c.Observe(n, form, v.Sign())
	c.Nontrivial()
}

var c13Huge = func() []*big.Int {
	p := func(k uint, d int64) *big.Int {
		return new(big.Int).Add(new(big.Int).Lsh(big.NewInt(1), k), big.NewInt(d))
	}
	return []*big.Int{p(495, -1), p(503, 0), p(504, -1), p(504, 0), p(512, 7), p(520, 0x12345600), new(big.Int).Neg(p(600, 0)), p(1024, -1), big.NewInt(3)}
}()

// (7) every ordered pair of integers around the 64-byte magnitude (where the binary writer keeps
// payloads by reference), written in ONE batch at top level or in one list, in each writer mode.
func c13Pairs(c *mc.Ctx) {
	a := c13Huge[c.Shard("first", len(c13Huge))]
	b := c13Huge[c.Pick("second", len(c13Huge))]
	mode := c.Pick("wmode", 3)
	inList := c.Pick("in-list", 2) == 1
	vals := []*rm.Value{rm.BigV(a), rm.BigV(b)}
	if inList {
		vals = []*rm.Value{rm.ListV(rm.BigV(a), rm.BigV(b))}
	}
	c.Case(func() string { return fmt.Sprintf("pair %v, %v inList=%v mode=%s", a, b, inList, modeNames[mode]) })
	c.Class("pairs/" + modeNames[mode])
	var buf bytes.Buffer
	var werr error
	if p := drive.Safe(func() {
		werr = drive.WriteStream(newWriter(mode, &buf), vals, &drive.WriteOpts{IntVia: c.Pick("int.via", 2)})
	}); p != "" {
		c.Fail("panic", drive.PanicSite(p), "%s", p)
		return
	}
	if werr != nil {
		c.Fail("unexpected-error", "write", "writing: %v", werr)
		return
	}
	got, calls, rerr, pan := readBack(buf.Bytes(), nil)
	c.Step(calls)
	if failPanic(c, pan) {
		return
	}
	if rerr != nil {
		c.Fail("unexpected-error", "read", "reading back %x…: %v", clipBytes(buf.Bytes(), 40), rerr)
		return
	}
	if df := rm.DiffStreams(vals, got); df != "" {
		c.Fail("value-mismatch", "pairs:"+modeNames[mode], "wrote %s, read %s: %s", rm.StreamString(vals), rm.StreamString(got), df)
		return
	}
	c.Observe(a.BitLen(), b.BitLen(), mode, inList)
	c.Nontrivial()
}

// (8) the binary writer's own symbol IDs across the VarUInt/UInt width boundaries: a writer that has
// defined n local symbols then uses symbol #k as annotation, field name and value; read back by text.
func c13WriterSIDs(c *mc.Ctx) {
	n := 300
	ks := make([]int, 0, 300)
	for k := 0; k < 300; k++ {
		ks = append(ks, k)
	}
	if c.Pick("table", 2) == 1 {
		if c.Tier != "thorough" {
			c.Skip("the 16 500-symbol table is in the thorough tier")
			return
		}
		n = 16500
		ks = []int{16370, 16371, 16372, 16373, 16374, 16375, 16376, 16377, 16378, 16489}
	}
	k := ks[c.Shard("symbol", len(ks))]
	fixed := c.Pick("fixed-table", 2) == 1
	name := func(i int) string { return fmt.Sprintf("s%d", i) }
	c.Case(func() string {
		return fmt.Sprintf("binary writer (fixed table=%v) with %d local symbols uses symbol #%d (ID %d) as annotation, field name and value", fixed, n, k, 10+k)
	})
	c.Class("writer-sids")
	var buf bytes.Buffer
	var werr error
	if p := drive.Safe(func() {
		var w ion.Writer
		if fixed {
			syms := make([]string, n)
			for i := range syms {
				syms[i] = name(i)
			}
			w = ion.NewBinaryWriterLST(&buf, ion.NewLocalSymbolTable(nil, syms))
		} else {
			w = ion.NewBinaryWriter(&buf)
			w.BeginList()
			for i := 0; i < n; i++ {
				w.WriteSymbolFromString(name(i))
			}
			w.EndList()
		}
		w.Annotation(ion.NewSymbolTokenFromString(name(k)))
		w.BeginStruct()
		w.FieldName(ion.NewSymbolTokenFromString(name(k)))
		w.Annotations(ion.NewSymbolTokenFromString(name(0)), ion.NewSymbolTokenFromString(name(k)))
		w.WriteSymbolFromString(name(k))
		w.EndStruct()
		w.WriteInt(7)
		werr = w.Finish()
	}); p != "" {
		c.Fail("panic", drive.PanicSite(p), "%s", p)
		return
	}
	if werr != nil {
		c.Fail("unexpected-error", "writer-sids", "writer: %v", werr)
		return
	}
	got, calls, rerr, pan := readBack(buf.Bytes(), nil)
	c.Step(calls)
	if failPanic(c, pan) {
		return
	}
	if rerr != nil {
		c.Fail("unexpected-error", "writer-sids:read", "the writer's own stream does not read back: %v", rerr)
		return
	}
	want := []*rm.Value{rm.StructV(rm.SymV(name(k)).A(name(0), name(k)).F(name(k))).A(name(k)), rm.IntV(7)}
	if !fixed {
		got = got[1:]
	}
	if df := rm.DiffStreams(want, got); df != "" {
		c.Fail("value-mismatch", "writer-sids", "wrote %s, read %s: %s", rm.StreamString(want), rm.StreamString(got), df)
		return
	}
	c.Observe(k, n, fixed)
	c.Nontrivial()
}

func c13Body(c *mc.Ctx) {
	switch c.Pick("part", 8) {
	case 7:
		c13WriterSIDs(c)
	case 5:
		c13Containers(c)
	case 6:
		c13Pairs(c)
	case 0:
		c13Ints(c)
	case 1:
		c13Matrix(c)
	case 2:
		c13Floats(c)
	case 3:
		c13Codec(c)
	default:
		c13Magnitudes(c)
	}
}

func init() {
	mc.Register(&mc.Check{
		ID:    "C13",
		Title: "Numbers are never silently truncated, wrapped or rounded",
		Rule: "eight exhaustive parts on the real code: (1) every integer ±(2^k+d), k<=80, |d|<=2 and every integer in [-2^16,2^16] (thorough: [-2^20,2^20]) carried by ion-go text/binary writers through each Writer entry point, by reference binary with 0/1/2 leading zero bytes and by reference hex text: IntSize never too small, Int64Value/IntValue exact or error, BigIntValue exact; " +
			"(2) the full accessor matrix 13 types x null/non-null x 11 accessors x text/binary: nil for own-type null, usage error for other types; (3) floats: sign x all 2048 exponents x 16 (thorough 256) mantissa patterns around the float32 cut: binary output decoded by the independent decoder and by the Reader is bit-identical, text likewise; " +
			"(4) ion-go's VarUInt/VarInt/Int encoders composed with its own decoders at every 2^k±2 and 0..299, and the ten-byte VarUInt / VarInt spelling of each of these plus 1, 2, 3, 32, 63 times 2^64 / 2^63, which must be refused rather than wrapped; (5) symbol IDs at VarUInt/UInt boundaries up to 2^32 through a placeholder import (last import slot, first local slot, one past the end) as value, annotation and field name; (6) an integer of every byte length 1..20, both signs, inside a list / sexp / struct / sorted struct (D1 form) / annotation wrapper / struct in a list, so that the container body length runs through every value 2..24, followed by a sibling: read back exactly; (7) every ordered pair of 9 integers around the 64-byte magnitude (2^495..2^1024) written in one batch, at top level and inside one list, by each writer mode and entry point: both read back exactly; (8) a binary writer (growing and fixed table) holding 300 local symbols uses EVERY one of them as annotation, field name and symbol value (IDs 10..309 cross the one-byte VarUInt boundary at 128; thorough: a 16 500-symbol table around ID 16384): read back by text. " +
			"non-trivial = an ion-go result was compared with exact big-integer/bit arithmetic; distinct = distinct (part, case, observation) digests",
		Bounds:      map[string]string{"quick": "ints: 131,073 small + 790 boundary x 6 carriers; floats 2 x 2048 x 16", "thorough": "ints 2^21+1 small; floats 2 x 2048 x 256"},
		Assumptions: []string{"IntValue is documented as int32-ranged; for values in (int32, int64] an exact value or an error are both accepted", "math/big, math.Float64bits trusted"},
		Body:        c13Body,
		Tiers:       map[string]mc.Tier{"quick": {}, "thorough": {}},
	})
}
