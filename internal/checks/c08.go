package checks

import (
	"bytes"
	"fmt"
	"strings"

	"github.com/amzn/ion-go/ion"

	"verif/internal/catalogue"
	"verif/internal/drive"
	"verif/internal/mc"
	"verif/internal/refbin"
	rm "verif/internal/refmodel"
	"verif/internal/refsym"
	"verif/internal/reftext"
)

// C08 — what a Reader returns does not depend on how the caller navigated.
//
// Differential oracle (DESIGN §7 C08, Appendix A.1): a reference cursor over the
// value forest that the SAME reader type produced in its own plain full
// traversal says where each navigation step lands; the tuple observed there
// must equal the tuple of the plain traversal at that path.

type c08Frame struct {
	kids      []*rm.Value
	idx       int // index of current child, -1 before the first
	exhausted bool
}

type c08Cursor struct {
	stack   []c08Frame
	onValue bool
}

func (cu *c08Cursor) top() *c08Frame { return &cu.stack[len(cu.stack)-1] }

func (cu *c08Cursor) cur() *rm.Value {
	if !cu.onValue {
		return nil
	}
	f := cu.top()
	return f.kids[f.idx]
}

func (cu *c08Cursor) next() bool {
	f := cu.top()
	if f.exhausted {
		cu.onValue = false
		return false
	}
	f.idx++
	if f.idx >= len(f.kids) {
		f.exhausted = true
		cu.onValue = false
		return false
	}
	cu.onValue = true
	return true
}

func (cu *c08Cursor) stepIn() bool {
	v := cu.cur()
	if v == nil || !v.Type.IsContainer() || v.Null {
		return false
	}
	cu.stack = append(cu.stack, c08Frame{kids: v.Kids, idx: -1})
	cu.onValue = false
	return true
}

func (cu *c08Cursor) stepOut() bool {
	if len(cu.stack) <= 1 {
		return false
	}
	cu.stack = cu.stack[:len(cu.stack)-1]
	cu.onValue = false
	cu.top().exhausted = false
	return true
}

// c08Docs: documents with >=2 levels and scalars of every token class so that every skip routine runs.
var c08DocsCache []doc

func c08Docs() []doc {
	if c08DocsCache != nil {
		return c08DocsCache
	}
	var out []doc
	reps := catalogue.Reps()
	add := func(name string, vals ...*rm.Value) { out = append(out, doc{name, vals}) }
	// every representative inside each container kind, between two neighbours, followed by a sentinel
	for i, r := range reps {
		add(fmt.Sprintf("list-rep%d", i), rm.ListV(rm.IntV(1), r, rm.StrV("after")), rm.IntV(99))
		add(fmt.Sprintf("sexp-rep%d", i), rm.SexpV(r, rm.SymV("after")), rm.IntV(99))
		add(fmt.Sprintf("struct-rep%d", i), rm.StructV(r.F("f"), rm.IntV(2).A("an").F("g")), rm.IntV(99))
		add(fmt.Sprintf("nested-rep%d", i), rm.ListV(rm.StructV(rm.ListV(r, rm.NullOf(rm.Null)).F("in")), r.A("a")), r)
	}
	for i, s := range catalogue.Shapes(4, 3) {
		add(fmt.Sprintf("shape%d", i), s, rm.IntV(7))
	}
	// lobs whose base64 contains / and comment-looking text, strings with brackets and quotes
	tricky := []*rm.Value{
		rm.BlobV([]byte{0xff, 0xff}), rm.BlobV([]byte{0xff, 0xef, 0xfe}), rm.BlobV([]byte{0x00, 0xff, 0xff}), rm.BlobV([]byte{0x03, 0xff, 0xff, 0xff, 0xf0}), rm.ClobV([]byte("]}) // */")), rm.StrV("]})\"'''"), rm.StrV("/* no */ // no"),
		rm.SymV("]"), rm.SymV("'''"), rm.StrV("'''"), rm.ClobV([]byte("'''")), rm.SymV("/*"), rm.StrV("\\"),
	}
	for i, t := range tricky {
		add(fmt.Sprintf("tricky%d", i), rm.ListV(rm.SexpV(t, rm.StructV(t.F("k"))), rm.IntV(1)), rm.IntV(2))
	}
	for i, lit := range c08LiteralTexts {
		raw, err := reftext.Parse([]byte(lit))
		if err != nil {
			panic(fmt.Sprintf("c08 literal %q: %v", lit, err))
		}
		res, err := refsym.Resolve(raw, nil)
		if err != nil {
			panic(fmt.Sprintf("c08 literal %q: %v", lit, err))
		}
		name := fmt.Sprintf("tricky-literal%d", i)
		out = append(out, doc{name, res.Values})
		c08Literals[name] = []byte(lit)
	}
	c08DocsCache = out
	return out
}

type c08Obs struct {
	typ  ion.Type
	null bool
	val  *rm.Value
	err  string
}

func c08Observe(r ion.Reader) c08Obs {
	o := c08Obs{typ: r.Type(), null: r.IsNull()}
	if o.typ != ion.NoType {
		v, err := drive.ReadShallow(r)
		if err != nil {
			o.err = err.Error()
		}
		o.val = v
	}
	return o
}

func shallowDiff(want *rm.Value, got *rm.Value) string {
	a, b := *want, *got
	a.Kids, b.Kids = nil, nil
	return rm.Diff(&a, &b)
}

var c08WrongAccessors = []struct {
	name string
	call func(r ion.Reader) error
	own  func(t ion.Type) bool
}{
	{"BoolValue", func(r ion.Reader) error { _, e := r.BoolValue(); return e }, func(t ion.Type) bool { return t == ion.BoolType }},
	{"Int64Value", func(r ion.Reader) error { _, e := r.Int64Value(); return e }, func(t ion.Type) bool { return t == ion.IntType }},
	{"StringValue", func(r ion.Reader) error { _, e := r.StringValue(); return e }, func(t ion.Type) bool { return t == ion.StringType }},
	{"ByteValue", func(r ion.Reader) error { _, e := r.ByteValue(); return e }, func(t ion.Type) bool { return t == ion.BlobType || t == ion.ClobType }},
	{"TimestampValue", func(r ion.Reader) error { _, e := r.TimestampValue(); return e }, func(t ion.Type) bool { return t == ion.TimestampType }},
	{"SymbolValue", func(r ion.Reader) error { _, e := r.SymbolValue(); return e }, func(t ion.Type) bool { return t == ion.SymbolType }},
	{"DecimalValue", func(r ion.Reader) error { _, e := r.DecimalValue(); return e }, func(t ion.Type) bool { return t == ion.DecimalType }},
	{"FloatValue", func(r ion.Reader) error { _, e := r.FloatValue(); return e }, func(t ion.Type) bool { return t == ion.FloatType }},
}

const (
	opNext = iota
	opStepIn
	opStepOut
	opWrongAccessor
	opReadTwice
	opStop
)

var c08OpNames = []string{"Next", "StepIn", "StepOut", "wrong-accessor", "read-twice", "stop"}

func c08Body(c *mc.Ctx) {
	free := c.Pick("mode", 2) == 1 // 1: every program of bounded length over the 4-op alphabet
	docs := c08Docs()
	var d doc
	if free {
		small := docs[len(catalogue.Reps())*4:]
		if len(small) > 24 {
			small = small[:24]
		}
		d = small[c.Shard("doc", len(small))]
	} else {
		d = docs[c.Shard("doc", len(docs))]
	}
	if !allRepresentable(d.vals) {
		c.Skip("not representable")
		return
	}
	binary := c.Pick("format", 2) == 1
	// layer 0: canonical bytes, navigation deviations up to the bound;
	// layer 1: at most one spelling/encoding deviation combined with at most one navigation deviation
	layer := 0
	if !free {
		layer = c.Pick("layer", 2)
	}
	var spell rm.Chooser = rm.Canon{}
	navLimit := 1 << 30
	if layer == 1 {
		if c.Tier != "thorough" && !strings.HasPrefix(d.name, "tricky") && !strings.HasPrefix(d.name, "nested") {
			c.Skip("layer 1 covers the nested and tricky documents in the quick tier")
			return
		}
		spell = &limitChooser{c: c, left: 1}
		navLimit = 1
	}
	var data []byte
	if binary {
		data = refbin.EncodeStream(spell, d.vals)
	} else if lit, ok := c08Literals[d.name]; ok && layer == 0 {
		data = lit
	} else {
		data = reftext.Print(spell, d.vals)
	}
	navUsed := 0
	var trace []string
	c.Case(func() string {
		return fmt.Sprintf("doc=%s binary=%v data=%q program=[%s]", rm.StreamString(d.vals), binary, clipBytes(data, 120), strings.Join(trace, " "))
	})
	c.Class(d.name)
	// plain full traversal by the same reader type: the differential baseline
	base, _, berr, pan := readBack(data, nil)
	if failPanic(c, pan) {
		return
	}
	if berr != nil {
		c.Skip("plain traversal already fails (left to C02/C03/C07)")
		return
	}
	// The expectation is what the plain traversal of the SAME bytes returned, whether or not it
	// agrees with the model (that agreement is C02/C03's business): navigation must not change it.
	cu := &c08Cursor{stack: []c08Frame{{kids: base, idx: -1}}}
	var r ion.Reader
	if failPanic(c, drive.Safe(func() { r = ion.NewReaderBytes(data) })) {
		return
	}
	maxSteps := 6
	if c.Tier == "thorough" {
		maxSteps = 8
	}
	budget := 4*len(data) + 40
	if !free {
		maxSteps = budget
	}
	entered := map[*rm.Value]bool{}
	tail := 0
	for step := 0; step < maxSteps; step++ {
		// default op of the plain traversal
		def := opNext
		if v := cu.cur(); v != nil && v.Type.IsContainer() && !v.Null && !entered[v] {
			def = opStepIn
		} else if cu.top().exhausted {
			if len(cu.stack) > 1 {
				def = opStepOut
			} else {
				def = opStop
			}
		}
		var op int
		if free {
			k := c.Pick("op", 5)
			if k == 4 {
				break
			}
			op = k
		} else {
			alts := []int{def}
			for _, o := range []int{opNext, opStepIn, opStepOut, opWrongAccessor, opReadTwice} {
				if o != def {
					alts = append(alts, o)
				}
			}
			if def == opStop {
				tail++
				if tail > 2 {
					break
				}
			}
			if navUsed >= navLimit {
				op = def
			} else {
				op = alts[c.Dev("nav", len(alts))]
				if op != def {
					navUsed++
				}
			}
			if op == opStop {
				break
			}
		}
		trace = append(trace, c08OpNames[op])
		var gotNext bool
		var opErr error
		acc := ""
		pan := drive.Safe(func() {
			switch op {
			case opNext:
				gotNext = r.Next()
			case opStepIn:
				opErr = r.StepIn()
			case opStepOut:
				opErr = r.StepOut()
			case opWrongAccessor:
				t := r.Type()
				for _, a := range c08WrongAccessors {
					if !a.own(t) {
						acc = a.name
						opErr = a.call(r)
						break
					}
				}
			case opReadTwice:
				if r.Type() != ion.NoType {
					drive.ReadShallow(r)
					drive.ReadShallow(r)
				}
			}
		})
		c.Step(1)
		if pan != "" {
			c.Fail("panic", drive.PanicSite(pan), "after program [%s]: %s", strings.Join(trace, " "), pan)
			return
		}
		legal := true
		switch op {
		case opNext:
			want := cu.next()
			if gotNext != want {
				c.Fail("value-mismatch", "Next", "step %d: Next returned %v, the plain traversal's cursor says %v (err=%v)", step, gotNext, want, r.Err())
				return
			}
		case opStepIn:
			v := cu.cur()
			legal = cu.stepIn()
			if legal {
				entered[v] = true
			}
			if legal && opErr != nil {
				c.Fail("unexpected-error", "StepIn", "step %d: legal StepIn failed: %v", step, opErr)
				return
			}
		case opStepOut:
			legal = cu.stepOut()
			if legal && opErr != nil {
				c.Fail("unexpected-error", "StepOut", "step %d: legal StepOut failed: %v", step, opErr)
				return
			}
		case opWrongAccessor:
			_ = acc
		}
		// observations after the step
		var o c08Obs
		if p := drive.Safe(func() { o = c08Observe(r) }); p != "" {
			c.Fail("panic", drive.PanicSite(p), "observing after [%s]: %s", strings.Join(trace, " "), p)
			return
		}
		want := cu.cur()
		if err := r.Err(); err != nil {
			c.Fail("unexpected-error", "Err:"+c08OpNames[op], "step %d (%s): Err()=%v although the plain traversal of this document reports none", step, c08OpNames[op], err)
			return
		}
		if want == nil {
			if o.typ != ion.NoType {
				c.Fail("value-mismatch", "Type-off-value:"+c08OpNames[op], "step %d (%s): Type()=%v but the cursor is not on a value", step, c08OpNames[op], o.typ)
				return
			}
		} else {
			if o.err != "" || o.val == nil {
				c.Fail("unexpected-error", "read:"+c08OpNames[op], "step %d (%s): reading the current value failed: %s", step, c08OpNames[op], o.err)
				return
			}
			if df := shallowDiff(want, o.val); df != "" {
				c.Fail("value-mismatch", "value:"+c08OpNames[op], "step %d (%s): observed %s, the plain traversal has %s here: %s", step, c08OpNames[op], o.val, want, df)
				return
			}
			if o.null != want.Null {
				c.Fail("value-mismatch", "IsNull", "step %d: IsNull=%v want %v", step, o.null, want.Null)
				return
			}
		}
		c.Observe(op, gotNext, legal)
	}
	c.Nontrivial()
}

// limitChooser lets at most `left` deviations through to the explorer.
type limitChooser struct {
	c    *mc.Ctx
	left int
}

func (l *limitChooser) Dev(label string, n int) int {
	if l.left <= 0 {
		return 0
	}
	k := l.c.Dev(label, n)
	if k != 0 {
		l.left--
	}
	return k
}

func (l *limitChooser) Pick(label string, n int) int { return l.c.Pick(label, n) }

func init() {
	_ = bytes.NewReader
	mc.Register(&mc.Check{
		ID:    "C08",
		Title: "What a Reader returns does not depend on how the caller navigated",
		Rule: "documents (every token-class representative inside list / sexp / struct / nested containers with neighbours; all container shapes <=4 nodes; lobs, strings and symbols whose text looks like brackets, quotes and comments; eight literal text documents in which operators run into comments and closers sit inside comments, strings, symbols and lobs) in text and binary, in canonical form and with <=d spelling/encoding deviations, x navigation programs: " +
			"(mode 0) the plain full traversal with <=d deviations, a deviation being one departure at one step: Next instead of StepIn (skip), StepOut early after any number of children, a refused StepIn (scalar/null/no value) or StepOut (top level), a wrong-typed accessor, the right-typed accessor twice, or extra Next/StepOut/StepIn after the end; (mode 1) EVERY program of length <=6 (thorough 8) over {Next, StepIn, StepOut, wrong accessor} on the 24 smallest shape documents. " +
			"Oracle: a reference cursor over the forest the same Reader type produced in its own plain traversal; after every step Next's result, Type, IsNull, FieldName, Annotations and the scalar value must equal the plain traversal's at that path and Err must stay nil. " +
			"non-trivial = a whole program was executed and compared step by step; distinct = distinct (document, per-step observation) digests",
		Bounds:      map[string]string{"quick": "canonical bytes: <=2 navigation deviations; nested+tricky documents: 1 spelling/encoding deviation x 1 navigation deviation", "thorough": "canonical bytes: <=3 navigation deviations; all documents: 1 spelling/encoding x 1 navigation deviation"},
		Assumptions: []string{"documents whose plain traversal fails or disagrees with the model are set aside (C02/C03 judge them)", "whether a refused call returns an error is not compared, only later observations"},
		Body:        c08Body,
		Tiers:       map[string]mc.Tier{"quick": {Bound: 2}, "thorough": {Bound: 3}},
	})
}
