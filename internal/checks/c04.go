package checks

import (
	"fmt"
	"math"
	"math/big"

	"github.com/amzn/ion-go/ion"

	"verif/internal/mc"
	"verif/internal/refbin"
	rm "verif/internal/refmodel"
	"verif/internal/refsym"
	"verif/internal/reftext"
)

// refDecodeText is the independent text decode: grammar + symbol context.
func refDecodeText(data []byte, cat refsym.Catalog) ([]*rm.Value, *refsym.Result, error) {
	raw, err := reftext.Parse(data)
	if err != nil {
		return nil, nil, err
	}
	res, err := refsym.Resolve(raw, cat)
	if err != nil {
		return nil, nil, err
	}
	return res.Values, res, nil
}

func refDecode(mode int, data []byte, cat refsym.Catalog) ([]*rm.Value, *refsym.Result, error) {
	if mode == 2 {
		if len(data) == 0 {
			// zero bytes are a valid (text) Ion stream of zero values; a binary writer that
			// was asked for no values may legitimately emit nothing
			return nil, &refsym.Result{}, nil
		}
		return refDecodeBinary(data, cat)
	}
	return refDecodeText(data, cat)
}

// c04Codec: the integer codecs' length functions agree with the bytes they
// append, and the reference decodes those bytes to the original value.
var c04Uints = func() []uint64 {
	seen := map[uint64]bool{}
	var out []uint64
	add := func(v uint64) {
		if !seen[v] {
			seen[v] = true
			out = append(out, v)
		}
	}
	for v := uint64(0); v <= 1<<16; v++ {
		add(v)
	}
	for k := uint(0); k <= 64; k++ {
		for d := int64(-2); d <= 2; d++ {
			var p uint64
			if k < 64 {
				p = uint64(1) << k
			}
			add(p + uint64(d))
		}
	}
	return out
}()

func c04Codec(c *mc.Ctx) {
	kind := c.Pick("codec", 6)
	u := c04Uints[c.Shard("v", len(c04Uints))]
	names := []string{"uint", "int", "bigint", "varuint", "varint", "tag"}
	c.Class("codec/" + names[kind])
	neg := false
	if kind == 1 || kind == 2 || kind == 4 {
		neg = c.Pick("neg", 2) == 1
	}
	c.Case(func() string { return fmt.Sprintf("codec=%s v=%d neg=%v", names[kind], u, neg) })
	fail := func(format string, a ...interface{}) { c.Fail("invalid-output", "codec:"+names[kind], format, a...) }
	switch kind {
	case 0:
		b := ion.VerifAppendUint(nil, u)
		if uint64(len(b)) != ion.VerifUintLen(u) {
			fail("uintLen(%d)=%d but appendUint wrote %d bytes", u, ion.VerifUintLen(u), len(b))
		} else if refbin.ReadUint(b).Cmp(new(big.Int).SetUint64(u)) != 0 {
			fail("appendUint(%d)=%x", u, b)
		}
	case 1:
		if u > math.MaxInt64 {
			c.Skip("beyond int64")
			return
		}
		v := int64(u)
		if neg {
			v = -v
		}
		b := ion.VerifAppendInt(nil, v)
		got, _ := refbin.ReadInt(b)
		if uint64(len(b)) != ion.VerifIntLen(v) {
			fail("intLen(%d)=%d but appendInt wrote %d bytes", v, ion.VerifIntLen(v), len(b))
		} else if got.Cmp(big.NewInt(v)) != 0 {
			fail("appendInt(%d)=%x decodes to %v", v, b, got)
		}
	case 2:
		v := new(big.Int).SetUint64(u)
		v.Lsh(v, uint(8*c.Pick("shift", 3)))
		if neg {
			v.Neg(v)
		}
		b := ion.VerifAppendBigInt(nil, v)
		got, _ := refbin.ReadInt(b)
		if uint64(len(b)) != ion.VerifBigIntLen(v) {
			fail("bigIntLen(%v)=%d but appendBigInt wrote %d bytes", v, ion.VerifBigIntLen(v), len(b))
		} else if got.Cmp(v) != 0 {
			fail("appendBigInt(%v)=%x decodes to %v", v, b, got)
		}
	case 3:
		b := ion.VerifAppendVarUint(nil, u)
		got, n, err := refbin.ReadVarUint(b)
		if uint64(len(b)) != ion.VerifVarUintLen(u) {
			fail("varUintLen(%d)=%d but appendVarUint wrote %d bytes", u, ion.VerifVarUintLen(u), len(b))
		} else if err != nil || n != len(b) || got != u {
			fail("appendVarUint(%d)=%x decodes to %d (%v)", u, b, got, err)
		}
	case 4:
		if u > math.MaxInt64 {
			c.Skip("beyond int64")
			return
		}
		v := int64(u)
		if neg {
			v = -v
		}
		b := ion.VerifAppendVarInt(nil, v)
		got, _, n, err := refbin.ReadVarInt(b)
		if uint64(len(b)) != ion.VerifVarIntLen(v) {
			fail("varIntLen(%d)=%d but appendVarInt wrote %d bytes", v, ion.VerifVarIntLen(v), len(b))
		} else if err != nil || n != len(b) || got != v {
			fail("appendVarInt(%d)=%x decodes to %d (%v)", v, b, got, err)
		}
	case 5:
		code := []byte{0x20, 0x80, 0xB0, 0xD0, 0xE0}[c.Pick("code", 5)]
		if code == 0xD0 && u == 1 {
			// a struct body is never 1 byte long (a field is a VarUInt plus a value), so the
			// writer cannot ask for this descriptor; D1 would mean "ordered struct"
			c.Skip("struct with a 1-byte body does not exist")
			return
		}
		b := ion.VerifAppendTag(nil, code, u)
		if uint64(len(b)) != ion.VerifTagLen(u) {
			fail("tagLen(%d)=%d but appendTag wrote %d bytes", u, ion.VerifTagLen(u), len(b))
			break
		}
		// reference reading of a type descriptor
		if b[0]&0xF0 != code {
			fail("appendTag(%x,%d)=%x changes the type code", code, u, b)
			break
		}
		l := uint64(b[0] & 0x0F)
		if l == 14 {
			got, n, err := refbin.ReadVarUint(b[1:])
			if err != nil || n != len(b)-1 || got != u {
				fail("appendTag(%x,%d)=%x declares length %d", code, u, b, got)
			}
		} else if l != u || len(b) != 1 || l == 15 {
			fail("appendTag(%x,%d)=%x declares inline length %d", code, u, b, l)
		}
	}
	c.Step(2)
	c.Observe(kind, u, neg)
	c.Nontrivial()
}

// C04 — writer output is valid, self-contained Ion under an independent decoder.
func c04Body(c *mc.Ctx) {
	if c.Pick("part", 2) == 1 {
		c04Codec(c)
		return
	}
	mode := c.Pick("mode", 5)
	vals, class := genValues(c, c.Tier == "thorough")
	c.Class(modeNames[mode] + "/" + class)
	c.Case(func() string { return fmt.Sprintf("mode=%s values=%s", modeNames[mode], rm.StreamString(vals)) })
	c.Family(dollarFamily(vals))
	if !allRepresentable(vals) || hasSystemShape(vals) {
		c.Skip("outside the data model / Go API domain")
		return
	}
	out, calls, failedCall, werr, pan := writeWith(c, mode, vals)
	c.Step(calls)
	if failPanic(c, pan) {
		return
	}
	if werr != nil {
		c.Skip("writer returned an error at " + failedCall)
		return
	}
	got, _, err := refDecode(mode, out, nil)
	if err != nil {
		c.Fail("invalid-output", modeNames[mode]+":invalid", "independent decoder rejects the output %q: %v", clipBytes(out, 160), err)
		return
	}
	if df := rm.DiffStreams(vals, got); df != "" {
		c.Fail("value-mismatch", modeNames[mode]+":"+diffKey(df), "wrote %s, output denotes %s (%s); bytes %q", rm.StreamString(vals), rm.StreamString(got), df, clipBytes(out, 160))
		return
	}
	c.Observe(fmt.Sprintf("%x", clipBytes(out, 48)), len(out))
	c.Nontrivial()
}

func init() {
	mc.Register(&mc.Check{
		ID:    "C04",
		Title: "Writer output is valid, self-contained Ion under an independent decoder",
		Rule: "the C01 value-sequence generator (layers A-E quick, +F thorough; entry-point deviations) in each writer mode; the bytes are judged ONLY by the independent references: refbin strict decoder (version marker first, every declared length exact, exact nesting, legal tag/length combinations, every SID defined by a table earlier in the same stream) or reftext grammar parser, then refsym context machine, then model equality with what was written. " +
			"Second part: for every v in 0..2^16 and 2^k+{-2..2} (k<=64), signed where applicable, for each integer codec (UInt, Int, big Int at 3 byte shifts, VarUInt, VarInt, type descriptor for 5 type codes): the length function equals the bytes appended and the reference decodes them to v. " +
			"non-trivial = an output stream (or codec output) was produced and decoded by the reference; distinct = distinct (mode, case, output bytes) digests",
		Bounds:      map[string]string{"quick": "layers A-E, d<=1; all codec values", "thorough": "layers A-F, d<=2; all codec values"},
		Assumptions: []string{"refbin / reftext / refsym are the trusted independent decoders (cross-checked against each other by selfcheck)", "ion-go's Reader is not consulted"},
		Body:        c04Body,
		Tiers:       map[string]mc.Tier{"quick": {Bound: 1}, "thorough": {Bound: 2}},
	})
}
