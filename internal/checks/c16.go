package checks

import (
	"bytes"
	"fmt"
	"math"
	"math/big"
	"reflect"
	"regexp"
	"sort"
	"time"

	"github.com/amzn/ion-go/ion"

	"verif/internal/drive"
	"verif/internal/mc"
	rm "verif/internal/refmodel"
)

// C16 — Marshal then Unmarshal returns an equal Go value, in text and in binary.

type c16Leaf struct {
	name string
	vals []interface{}
}

func mustTS(s string) ion.Timestamp { return ion.MustParseTimestamp(s) }

var c16Leaves = []c16Leaf{
	{"bool", []interface{}{false, true}},
	{"int8", []interface{}{int8(0), int8(math.MinInt8), int8(math.MaxInt8)}},
	{"int16", []interface{}{int16(0), int16(math.MinInt16), int16(math.MaxInt16)}},
	{"int32", []interface{}{int32(0), int32(math.MinInt32), int32(math.MaxInt32)}},
	{"int64", []interface{}{int64(0), int64(math.MinInt64), int64(math.MaxInt64)}},
	{"int", []interface{}{int(0), int(-1), int(math.MaxInt64)}},
	{"uint8", []interface{}{uint8(0), uint8(math.MaxUint8)}},
	{"uint16", []interface{}{uint16(0), uint16(math.MaxUint16)}},
	{"uint32", []interface{}{uint32(0), uint32(math.MaxUint32)}},
	{"uint64", []interface{}{uint64(0), uint64(1) << 63, uint64(math.MaxUint64)}},
	{"uint", []interface{}{uint(0), uint(math.MaxUint64)}},
	{"float32", []interface{}{float32(0), float32(1.5), float32(math.MaxFloat32), float32(math.SmallestNonzeroFloat32), float32(math.Copysign(0, -1)), float32(math.Inf(-1))}},
	{"float64", []interface{}{float64(0), 0.1, math.MaxFloat64, math.SmallestNonzeroFloat64, math.Copysign(0, -1), math.Inf(1), math.NaN(), float64(math.MaxFloat32) * 2}},
	{"string", []interface{}{"", "a", "$5", "null", "é😀\n\"'"}},
	{"[]byte", []interface{}{[]byte(nil), []byte{}, []byte{0, 255, 'a'}}},
	{"[3]byte", []interface{}{[3]byte{}, [3]byte{1, 2, 255}}},
	{"Timestamp", []interface{}{mustTS("2000T"), mustTS("2000-02-29"), mustTS("2000-01-01T12:30Z"), mustTS("1999-12-31T23:59:59.120-00:00"), mustTS("2021-06-15T01:02:03.000000001+05:30")}},
	{"Decimal", []interface{}{*ion.NewDecimal(big.NewInt(0), 0, false), *ion.NewDecimal(big.NewInt(0), -2, true), *ion.NewDecimal(big.NewInt(12345), -2, false), *ion.MustParseDecimal("-1d100")}},
	{"*Decimal", []interface{}{(*ion.Decimal)(nil), ion.NewDecimal(big.NewInt(15), -1, false), ion.MustParseDecimal("-0.00")}},
	{"time.Time", []interface{}{time.Date(2000, 1, 2, 3, 4, 5, 0, time.UTC), time.Date(1999, 12, 31, 23, 59, 59, 123456789, time.FixedZone("x", 5*3600+1800)), time.Date(1, 1, 1, 0, 0, 0, 0, time.UTC)}},
	{"big.Int", []interface{}{*big.NewInt(0), *big.NewInt(-1), *new(big.Int).Lsh(big.NewInt(1), 70)}},
	{"*big.Int", []interface{}{(*big.Int)(nil), big.NewInt(7), new(big.Int).Neg(new(big.Int).Lsh(big.NewInt(1), 64))}},
	{"interface{}", []interface{}{nil, 5, "s", true, 1.5, []interface{}{1, "x"}, map[string]interface{}{"k": 1}}},
	{"[]int", []interface{}{[]int(nil), []int{}, []int{1, -2}}},
	{"[]string", []interface{}{[]string(nil), []string{}, []string{"", "b"}}},
	{"map[string]int", []interface{}{map[string]int(nil), map[string]int{}, map[string]int{"b": 2, "a": 1, "$5": 3, "": 4}, map[string]int{"etag": 1, "ETag": 2, "ETAG": 3, "eTag": 4, "b": 5, "B": 6}}},
	{"*int", []interface{}{(*int)(nil), ptrInt(0), ptrInt(-9)}},
	{"**int", []interface{}{(**int)(nil), ptrPtrInt(3)}},
	{"*string", []interface{}{(*string)(nil), ptrStr("")}},
	{"c16Tagged", []interface{}{c16Tagged{}, c16Tagged{Renamed: 1, Omit: 0, Sym: "sym", SymDollar: "$5", Clob: []byte("c"), Sexp: []int{1, 2}, Skip: 9, Ptr: ptrInt(4), unexported: 1}, c16Tagged{Omit: 5, Clob: []byte{}, Sexp: []int{}}}},
	{"c16Embed", []interface{}{c16Embed{}, c16Embed{c16Inner: c16Inner{A: 1, B: "b"}, C16InnerPtr: &C16InnerPtr{C: 2}, D: 3}}},
	{"c16Deep", []interface{}{c16Deep{}, c16Deep{c16L1: c16L1{c16L2: c16L2{c16L3: c16L3{P: 7, Q: "hello"}, M: 1}, N: 2}, Top: 3}}},
	{"c16Annot", []interface{}{c16Annot{Value: 5, Ann: []ion.SymbolToken{ion.NewSymbolTokenFromString("age"), ion.NewSymbolTokenFromString("$5")}}, c16Annot{Value: "s"}}},
	{"c16AnnotStruct", []interface{}{c16AnnotStruct{V: c16Inner{A: 1, B: "b"}, Ann: []ion.SymbolToken{ion.NewSymbolTokenFromString("a")}}}},
	{"c16AnnotMap", []interface{}{c16AnnotMap{V: map[string]int{"k": 2}, Ann: []ion.SymbolToken{ion.NewSymbolTokenFromString("a")}}}},
	{"c16AnnotList", []interface{}{c16AnnotList{V: []int{1, 2}, Ann: []ion.SymbolToken{ion.NewSymbolTokenFromString("a")}}}},
	{"c16Case", []interface{}{c16Case{Name: "upper", Lower: "lower"}, c16Case{}}},
	{"c16Nested", []interface{}{c16Nested{}, c16Nested{L: []c16Inner{{A: 1}, {B: "x"}}, M: map[string]*c16Inner{"k": {A: 2}, "nil": nil}, P: &c16Inner{B: "p"}, I: []interface{}{1, "two"}}}},
}

type c16Tagged struct {
	Renamed    int    `ion:"r"`
	Omit       int    `ion:"o,omitempty"`
	Sym        string `ion:"sym,symbol"`
	SymDollar  string `ion:",symbol"`
	Clob       []byte `ion:",clob"`
	Sexp       []int  `ion:"sx,sexp"`
	Skip       int    `ion:"-"`
	Ptr        *int   `ion:",omitempty"`
	unexported int
}

type c16Inner struct {
	A int
	B string
}
type C16InnerPtr struct {
	C int
}
type c16Embed struct {
	c16Inner
	*C16InnerPtr
	D int
}
type c16L3 struct {
	P int
	Q string
}
type c16L2 struct {
	c16L3
	M int
}
type c16L1 struct {
	c16L2
	N int
}
type c16Deep struct {
	c16L1
	Top int
}
type c16Annot struct {
	Value interface{}
	Ann   []ion.SymbolToken `ion:",annotations"`
}

var c16Addr = regexp.MustCompile(`0x[0-9a-f]{6,}`)

type c16AnnotStruct struct {
	V   c16Inner
	Ann []ion.SymbolToken `ion:",annotations"`
}
type c16AnnotMap struct {
	V   map[string]int
	Ann []ion.SymbolToken `ion:",annotations"`
}
type c16AnnotList struct {
	V   []int
	Ann []ion.SymbolToken `ion:",annotations"`
}
type c16Case struct {
	Name  string
	Lower string `ion:"name"`
}
type c16Nested struct {
	L []c16Inner
	M map[string]*c16Inner
	P *c16Inner
	I []interface{}
}

func ptrInt(i int) *int       { return &i }
func ptrStr(s string) *string { return &s }
func ptrPtrInt(i int) **int   { p := &i; return &p }

// wrap builds the wrapper type around a leaf value: 0 none, 1 pointer, 2 slice, 3 array[2], 4 map, 5 struct field, 6 struct field omitempty, 7 interface{}
var c16Wrappers = []string{"T", "*T", "[]T", "[2]T", "map[string]T", "struct{F T}", "struct{F T omitempty}", "interface{}(T)"}

func c16Wrap(v interface{}, w int) (val reflect.Value, ok bool) {
	if v == nil {
		// untyped nil only makes sense as interface{}
		var x interface{}
		rv := reflect.ValueOf(&x).Elem()
		switch w {
		case 0, 7:
			return rv, true
		}
		return rv, false
	}
	rv := reflect.ValueOf(v)
	t := rv.Type()
	switch w {
	case 0:
		p := reflect.New(t).Elem()
		p.Set(rv)
		return p, true
	case 1:
		if isNilValue(rv) {
			// a pointer to a nil pointer/slice/map and a nil pointer both map to null: not distinguishable by design
			return rv, false
		}
		p := reflect.New(t)
		p.Elem().Set(rv)
		q := reflect.New(p.Type()).Elem()
		q.Set(p)
		return q, true
	case 2:
		s := reflect.MakeSlice(reflect.SliceOf(t), 2, 2)
		s.Index(0).Set(rv)
		s.Index(1).Set(rv)
		q := reflect.New(s.Type()).Elem()
		q.Set(s)
		return q, true
	case 3:
		a := reflect.New(reflect.ArrayOf(2, t)).Elem()
		a.Index(0).Set(rv) // both set: the zero Timestamp is not a timestamp
		a.Index(1).Set(rv)
		return a, true
	case 4:
		m := reflect.MakeMap(reflect.MapOf(reflect.TypeOf(""), t))
		m.SetMapIndex(reflect.ValueOf("k"), rv)
		m.SetMapIndex(reflect.ValueOf("a b"), rv)
		q := reflect.New(m.Type()).Elem()
		q.Set(m)
		return q, true
	case 5, 6:
		tag := reflect.StructTag(`ion:"f"`)
		if w == 6 {
			tag = `ion:"f,omitempty"`
		}
		st := reflect.StructOf([]reflect.StructField{{Name: "F", Type: t, Tag: tag}, {Name: "Z", Type: reflect.TypeOf(0)}})
		s := reflect.New(st).Elem()
		s.Field(0).Set(rv)
		s.Field(1).SetInt(1)
		return s, true
	default:
		switch x := v.(type) {
		case float64, string, bool:
		case int:
			if x > math.MaxInt32 || x < math.MinInt32 {
				return rv, false // documented: larger ints come back as int64
			}
		default:
			// other dynamic types are not fixpoints of the documented interface{} mapping (int8 comes back as int)
			return rv, false
		}
		var x interface{} = v
		q := reflect.ValueOf(&x).Elem()
		return q, true
	}
}

// nilable reports a nil pointer/slice/map/interface value.
func isNilValue(rv reflect.Value) bool {
	switch rv.Kind() {
	case reflect.Ptr, reflect.Slice, reflect.Map, reflect.Interface:
		return rv.IsNil()
	}
	return false
}

// goEqual is reflect.DeepEqual with Ion-aware leaves.
func goEqual(a, b reflect.Value, path string) string {
	if a.IsValid() != b.IsValid() {
		return fmt.Sprintf("%s: validity %v vs %v", path, a.IsValid(), b.IsValid())
	}
	if !a.IsValid() {
		return ""
	}
	if a.Type() != b.Type() {
		return fmt.Sprintf("%s: type %v vs %v", path, a.Type(), b.Type())
	}
	var ai interface{}
	if a.CanInterface() && b.CanInterface() && a.Kind() != reflect.Interface && a.Kind() != reflect.Ptr {
		ai = a.Interface()
	}
	switch x := ai.(type) {
	case ion.Timestamp:
		y := b.Interface().(ion.Timestamp)
		if !drive.ModelTimestamp(x).Equal(drive.ModelTimestamp(y)) {
			return fmt.Sprintf("%s: timestamp %v vs %v", path, x, y)
		}
		return ""
	case ion.Decimal:
		y := b.Interface().(ion.Decimal)
		if !drive.ModelDecimal(&x).Equal(drive.ModelDecimal(&y)) {
			return fmt.Sprintf("%s: decimal %v vs %v", path, &x, &y)
		}
		return ""
	case time.Time:
		y := b.Interface().(time.Time)
		_, ox := x.Zone()
		_, oy := y.Zone()
		if !x.Equal(y) || ox != oy {
			return fmt.Sprintf("%s: time %v vs %v", path, x, y)
		}
		return ""
	case big.Int:
		y := b.Interface().(big.Int)
		if x.Cmp(&y) != 0 {
			return fmt.Sprintf("%s: big.Int %v vs %v", path, &x, &y)
		}
		return ""
	case ion.SymbolToken:
		y := b.Interface().(ion.SymbolToken)
		if (x.Text == nil) != (y.Text == nil) || (x.Text != nil && *x.Text != *y.Text) {
			return fmt.Sprintf("%s: symbol token %v vs %v", path, x.String(), y.String())
		}
		return ""
	}
	switch a.Kind() {
	case reflect.Float32, reflect.Float64:
		fa, fb := a.Float(), b.Float()
		if math.IsNaN(fa) && math.IsNaN(fb) {
			return ""
		}
		if math.Float64bits(fa) != math.Float64bits(fb) {
			return fmt.Sprintf("%s: float %v vs %v", path, fa, fb)
		}
		return ""
	case reflect.Ptr, reflect.Interface:
		if a.IsNil() != b.IsNil() {
			return fmt.Sprintf("%s: nil %v vs %v", path, a.IsNil(), b.IsNil())
		}
		if a.IsNil() {
			return ""
		}
		return goEqual(a.Elem(), b.Elem(), path+"*")
	case reflect.Slice:
		if a.IsNil() != b.IsNil() {
			return fmt.Sprintf("%s: nil slice %v vs %v", path, a.IsNil(), b.IsNil())
		}
		fallthrough
	case reflect.Array:
		if a.Len() != b.Len() {
			return fmt.Sprintf("%s: length %d vs %d", path, a.Len(), b.Len())
		}
		for i := 0; i < a.Len(); i++ {
			if d := goEqual(a.Index(i), b.Index(i), fmt.Sprintf("%s[%d]", path, i)); d != "" {
				return d
			}
		}
		return ""
	case reflect.Map:
		if a.IsNil() != b.IsNil() {
			return fmt.Sprintf("%s: nil map %v vs %v", path, a.IsNil(), b.IsNil())
		}
		if a.Len() != b.Len() {
			return fmt.Sprintf("%s: map size %d vs %d", path, a.Len(), b.Len())
		}
		for _, k := range a.MapKeys() {
			bv := b.MapIndex(k)
			if !bv.IsValid() {
				return fmt.Sprintf("%s: key %v missing", path, k)
			}
			if d := goEqual(a.MapIndex(k), bv, fmt.Sprintf("%s[%v]", path, k)); d != "" {
				return d
			}
		}
		return ""
	case reflect.Struct:
		for i := 0; i < a.NumField(); i++ {
			sf := a.Type().Field(i)
			if sf.PkgPath != "" && !sf.Anonymous {
				continue // unexported: not carried
			}
			if sf.Tag.Get("ion") == "-" {
				continue
			}
			if _, opts := parseTag(sf.Tag.Get("ion")); opts["omitempty"] && isEmptyGo(a.Field(i)) && isEmptyGo(b.Field(i)) {
				continue // omitempty drops every empty value: -0, nil and empty are all "empty" and come back as the zero value
			}
			if d := goEqual(a.Field(i), b.Field(i), path+"."+sf.Name); d != "" {
				return d
			}
		}
		return ""
	}
	switch a.Kind() {
	case reflect.Bool:
		if a.Bool() != b.Bool() {
			return fmt.Sprintf("%s: %v vs %v", path, a.Bool(), b.Bool())
		}
	case reflect.Int, reflect.Int8, reflect.Int16, reflect.Int32, reflect.Int64:
		if a.Int() != b.Int() {
			return fmt.Sprintf("%s: %v vs %v", path, a.Int(), b.Int())
		}
	case reflect.Uint, reflect.Uint8, reflect.Uint16, reflect.Uint32, reflect.Uint64:
		if a.Uint() != b.Uint() {
			return fmt.Sprintf("%s: %v vs %v", path, a.Uint(), b.Uint())
		}
	case reflect.String:
		if a.String() != b.String() {
			return fmt.Sprintf("%s: %q vs %q", path, a.String(), b.String())
		}
	default:
		return fmt.Sprintf("%s: goEqual cannot compare kind %v", path, a.Kind())
	}
	return ""
}

// ionImage is the documented Go->Ion mapping (the independent expectation for the bytes).
func ionImage(v reflect.Value, hint rm.Type, sortKeys bool) *rm.Value {
	if !v.IsValid() {
		return rm.NullOf(rm.Null)
	}
	var vi interface{}
	if v.CanInterface() {
		vi = v.Interface()
	}
	switch x := vi.(type) {
	case ion.Timestamp:
		return rm.TSV(drive.ModelTimestamp(x))
	case ion.Decimal:
		d := drive.ModelDecimal(&x)
		return rm.DecV(d.Coef, d.Exp, d.NegZero)
	case time.Time:
		_, off := x.Zone()
		name, _ := x.Zone()
		ts := rm.TS{Year: x.Year(), Month: int(x.Month()), Day: x.Day(), Hour: x.Hour(), Minute: x.Minute(), Second: x.Second(), Prec: rm.PSecond, FracDigits: 9, FracCoef: big.NewInt(int64(x.Nanosecond()))}
		if name != "" {
			ts.OffsetKnown, ts.OffsetMin = true, off/60
		}
		return rm.TSV(ts)
	case big.Int:
		return rm.BigV(new(big.Int).Set(&x))
	}
	switch v.Kind() {
	case reflect.Bool:
		return rm.BoolV(v.Bool())
	case reflect.Int, reflect.Int8, reflect.Int16, reflect.Int32, reflect.Int64:
		return rm.IntV(v.Int())
	case reflect.Uint, reflect.Uint8, reflect.Uint16, reflect.Uint32, reflect.Uint64:
		return rm.BigV(new(big.Int).SetUint64(v.Uint()))
	case reflect.Float32, reflect.Float64:
		return rm.FloatV(v.Float())
	case reflect.String:
		if hint == rm.Symbol {
			return rm.SymV(v.String())
		}
		return rm.StrV(v.String())
	case reflect.Ptr, reflect.Interface:
		if v.IsNil() {
			return rm.NullOf(rm.Null)
		}
		return ionImage(v.Elem(), hint, sortKeys)
	case reflect.Slice:
		if v.Type().Elem().Kind() == reflect.Uint8 {
			if v.IsNil() {
				return rm.NullOf(rm.Null)
			}
			if hint == rm.Clob {
				return rm.ClobV(append([]byte{}, v.Bytes()...))
			}
			return rm.BlobV(append([]byte{}, v.Bytes()...))
		}
		if v.IsNil() {
			return rm.NullOf(rm.Null)
		}
		fallthrough
	case reflect.Array:
		out := &rm.Value{Type: rm.List}
		if hint == rm.Sexp {
			out.Type = rm.Sexp
		}
		for i := 0; i < v.Len(); i++ {
			out.Kids = append(out.Kids, ionImage(v.Index(i), hint, sortKeys))
		}
		return out
	case reflect.Map:
		if v.IsNil() {
			return rm.NullOf(rm.Null)
		}
		out := &rm.Value{Type: rm.Struct}
		keys := v.MapKeys()
		sort.Slice(keys, func(i, j int) bool { return keys[i].String() < keys[j].String() })
		for _, k := range keys {
			out.Kids = append(out.Kids, ionImage(v.MapIndex(k), hint, sortKeys).F(k.String()))
		}
		return out
	case reflect.Struct:
		return structImage(v, sortKeys)
	}
	panic(fmt.Sprintf("ionImage: unsupported kind %v", v.Kind()))
}

type imgField struct {
	name  string
	val   reflect.Value
	omit  bool
	hint  rm.Type
	annot bool
	ok    bool
}

func parseTag(tag string) (name string, opts map[string]bool) {
	opts = map[string]bool{}
	parts := splitComma(tag)
	if len(parts) > 0 {
		name = parts[0]
		for _, o := range parts[1:] {
			opts[o] = true
		}
	}
	return
}

func splitComma(s string) []string {
	var out []string
	cur := ""
	for i := 0; i < len(s); i++ {
		if s[i] == ',' {
			out = append(out, cur)
			cur = ""
		} else {
			cur += string(s[i])
		}
	}
	return append(out, cur)
}

func collectFields(v reflect.Value, out *[]imgField) {
	t := v.Type()
	for i := 0; i < t.NumField(); i++ {
		sf := t.Field(i)
		tag := sf.Tag.Get("ion")
		if tag == "-" {
			continue
		}
		name, opts := parseTag(tag)
		ft := sf.Type
		isEmbStruct := sf.Anonymous && (ft.Kind() == reflect.Struct || (ft.Kind() == reflect.Ptr && ft.Elem().Kind() == reflect.Struct))
		if sf.PkgPath != "" && !isEmbStruct {
			continue
		}
		fv := v.Field(i)
		if name == "" && isEmbStruct {
			if fv.Kind() == reflect.Ptr {
				if fv.IsNil() {
					continue
				}
				fv = fv.Elem()
			}
			collectFields(fv, out)
			continue
		}
		if name == "" {
			name = sf.Name
		}
		f := imgField{name: name, val: fv, omit: opts["omitempty"], annot: opts["annotations"], ok: true}
		switch {
		case opts["symbol"]:
			f.hint = rm.Symbol
		case opts["clob"]:
			f.hint = rm.Clob
		case opts["sexp"]:
			f.hint = rm.Sexp
		}
		*out = append(*out, f)
	}
}

func isEmptyGo(v reflect.Value) bool {
	switch v.Kind() {
	case reflect.Array, reflect.Map, reflect.Slice, reflect.String:
		return v.Len() == 0
	case reflect.Bool:
		return !v.Bool()
	case reflect.Int, reflect.Int8, reflect.Int16, reflect.Int32, reflect.Int64:
		return v.Int() == 0
	case reflect.Uint, reflect.Uint8, reflect.Uint16, reflect.Uint32, reflect.Uint64:
		return v.Uint() == 0
	case reflect.Float32, reflect.Float64:
		return v.Float() == 0
	case reflect.Interface, reflect.Ptr:
		return v.IsNil()
	}
	return false
}

func structImage(v reflect.Value, sortKeys bool) *rm.Value {
	var fs []imgField
	collectFields(v, &fs)
	for _, f := range fs {
		if f.annot {
			// annotation wrapper: the other field is the value
			var val *rm.Value
			for _, g := range fs {
				if !g.annot {
					val = ionImage(g.val, 0, sortKeys)
				}
			}
			if val == nil {
				val = rm.NullOf(rm.Null)
			}
			if toks, ok := f.val.Interface().([]ion.SymbolToken); ok {
				for _, tk := range toks {
					val.Annots = append(val.Annots, drive.SymOf(tk))
				}
			}
			return val
		}
	}
	out := &rm.Value{Type: rm.Struct}
	for _, f := range fs {
		if f.omit && isEmptyGo(f.val) {
			continue
		}
		out.Kids = append(out.Kids, ionImage(f.val, f.hint, sortKeys).F(f.name))
	}
	return out
}

func c16Names(v reflect.Value, acc map[string]bool) {
	img := ionImage(v, 0, true)
	var walk func(x *rm.Value)
	walk = func(x *rm.Value) {
		if x.Field != nil && x.Field.HasText {
			acc[x.Field.Text] = true
		}
		for _, a := range x.Annots {
			if a.HasText {
				acc[a.Text] = true
			}
		}
		if x.Type == rm.Symbol && !x.Null && x.Sym.HasText {
			acc[x.Sym.Text] = true
		}
		for _, k := range x.Kids {
			walk(k)
		}
	}
	walk(img)
}

var c16APIs = []string{"MarshalText", "MarshalBinary", "MarshalBinaryLST", "Encoder(text)+Decoder"}

func c16Body(c *mc.Ctx) {
	li := c.Shard("type", len(c16Leaves))
	leaf := c16Leaves[li]
	vi := c.Pick("value", len(leaf.vals))
	w := c.Pick("wrapper", len(c16Wrappers))
	api := c.Pick("api", len(c16APIs))
	val, ok := c16Wrap(leaf.vals[vi], w)
	if !ok {
		c.Skip("wrapper not applicable to an untyped nil")
		return
	}
	c.Family(leaf.name)
	c.Case(func() string {
		// pointers print as addresses, which differ from run to run: keep the witness stable
		return fmt.Sprintf("%s %s value#%d (%s) = %s", c16APIs[api], leaf.name, vi, c16Wrappers[w], c16Addr.ReplaceAllString(fmt.Sprintf("%+v", val.Interface()), "0x…"))
	})
	c.Class(leaf.name + "/" + c16Wrappers[w])
	img := func() (im *rm.Value, p string) {
		p = drive.Safe(func() { im = ionImage(val, 0, true) })
		return
	}
	want, ip := img()
	if ip != "" {
		c.Fail("oracle", "image", "ionImage failed: %s", ip)
		return
	}
	var out, out2 []byte
	var err error
	skipLST := false
	pan := drive.Safe(func() {
		switch api {
		case 0:
			out, err = ion.MarshalText(val.Interface())
			if err == nil {
				// several more calls: map iteration order is randomised per call, and an ordering
				// that depends on it has to show up here with near certainty
				out2, _ = ion.MarshalText(val.Interface())
				for i := 0; i < 12 && bytes.Equal(out, out2); i++ {
					out2, _ = ion.MarshalText(val.Interface())
				}
			}
		case 1:
			out, err = ion.MarshalBinary(val.Interface())
		case 2:
			names := map[string]bool{}
			c16Names(val, names)
			var ns []string
			for n := range names {
				ns = append(ns, n)
			}
			sort.Strings(ns)
			if names[""] {
				skipLST = true
				return
			}
			out, err = ion.MarshalBinaryLST(val.Interface(), ion.NewLocalSymbolTable(nil, ns))
		default:
			var buf bytes.Buffer
			enc := ion.NewTextEncoder(&buf)
			err = enc.Encode(val.Interface())
			if err == nil {
				err = enc.Finish()
			}
			out = buf.Bytes()
		}
	})
	c.Step(2)
	if failPanic(c, pan) {
		return
	}
	if skipLST {
		c.Skip("a fixed symbol table cannot hold the empty symbol text (ion-go uses \"\" as its padding value)")
		return
	}
	if err != nil {
		c.Fail("unexpected-error", c16APIs[api]+":marshal", "marshal failed: %v", err)
		return
	}
	if api == 0 && !bytes.Equal(out, out2) {
		c.Fail("nondeterministic", "MarshalText", "two MarshalText calls gave %q and %q", out, out2)
		return
	}
	mode := 0
	if api == 1 || api == 2 {
		mode = 2
	}
	got, _, derr := refDecode(mode, out, nil)
	if derr != nil {
		c.Fail("invalid-output", c16APIs[api]+":invalid", "output %q is not valid Ion: %v", clipBytes(out, 120), derr)
		return
	}
	// struct field order of maps is only defined for MarshalText (sorted); compare maps as sets elsewhere
	if df := imageDiff(want, got, api != 0); df != "" {
		c.Fail("value-mismatch", c16APIs[api]+":image:"+diffKey(df), "Go value %+v should denote %s, bytes denote %s: %s", val.Interface(), want, rm.StreamString(got), df)
		return
	}
	// Unmarshal into a fresh value of the same type
	fresh := reflect.New(val.Type())
	pan = drive.Safe(func() {
		if api == 3 {
			err = ion.NewDecoder(ion.NewReaderBytes(out)).DecodeTo(fresh.Interface())
		} else {
			err = ion.Unmarshal(out, fresh.Interface())
		}
	})
	c.Step(1)
	if failPanic(c, pan) {
		return
	}
	if err != nil {
		c.Fail("unexpected-error", c16APIs[api]+":unmarshal", "Unmarshal of %q into %v failed: %v", clipBytes(out, 120), val.Type(), err)
		return
	}
	if d := goEqual(val, fresh.Elem(), ""); d != "" {
		c.Fail("value-mismatch", c16APIs[api]+":roundtrip", "Unmarshal(Marshal(v)) != v: %s (bytes %q)", d, clipBytes(out, 120))
		return
	}
	c.Observe(fmt.Sprintf("%x", clipBytes(out, 64)))
	c.Nontrivial()
}

// imageDiff compares the expected image with the decoded stream; with unordered=true struct
// fields that came from Go maps may appear in any order (compared as multisets by field name).
func imageDiff(want *rm.Value, got []*rm.Value, unordered bool) string {
	if len(got) != 1 {
		return fmt.Sprintf("stream length 1 vs %d", len(got))
	}
	a, b := want.Clone(), got[0].Clone()
	if unordered {
		sortStructs(a)
		sortStructs(b)
	}
	return rm.Diff(a, b)
}

func sortStructs(v *rm.Value) {
	for _, k := range v.Kids {
		sortStructs(k)
	}
	if v.Type == rm.Struct {
		sort.SliceStable(v.Kids, func(i, j int) bool {
			fi, fj := "", ""
			if v.Kids[i].Field != nil {
				fi = v.Kids[i].Field.Text
			}
			if v.Kids[j].Field != nil {
				fj = v.Kids[j].Field.Text
			}
			return fi < fj
		})
	}
}

func init() {
	mc.Register(&mc.Check{
		ID:    "C16",
		Title: "Marshal then Unmarshal returns an equal Go value, in text and in binary",
		Rule: "every leaf type of a 39-entry table (bool, all integer widths at their extremes, floats incl. -0/NaN/inf/float32 limits, strings incl. '$5', []byte nil/empty/non-empty, [3]byte, Timestamp at 5 precisions, Decimal and *Decimal incl. negative zero, time.Time with zones and nanoseconds, big.Int and *big.Int, interface{} fixpoints, slices/maps nil vs empty, pointers and pointer-to-pointer, structs with every ion tag option, embedded structs by value/pointer/three levels deep, the annotations wrapper around a scalar, a list, a struct and a map, case-colliding field names, nested collections) x every boundary value x 8 wrappers (bare, pointer, slice, array, map, struct field, omitempty struct field, interface{}) x {MarshalText, MarshalBinary, MarshalBinaryLST, Encoder+Decoder}. " +
			"Oracle: (i) the independent decoder reads the bytes and they equal the documented Ion image of the Go value (computed by an independent walk over the value and its tags); (ii) Unmarshal into a fresh value of the same type is equal (NaN, timestamps, decimals, times, big ints compared by value; nil vs empty collections distinguished); (iii) MarshalText called up to 13 times gives identical bytes (maps incl. keys that differ only in case). " +
			"non-trivial = bytes decoded, image compared and round trip compared; distinct = distinct (type, wrapper, output bytes) digests",
		Bounds:      map[string]string{"quick": "wrapper depth 1", "thorough": "same table (complete)"},
		Assumptions: []string{"interface{} values are restricted to fixpoints of the documented mapping (int, float64, string, bool, []interface{}, map[string]interface{}, nil)"},
		Body:        c16Body,
		Tiers:       map[string]mc.Tier{"quick": {}, "thorough": {}},
	})
}
