package catalogue

import (
	"testing"

	"verif/internal/refbin"
	rm "verif/internal/refmodel"
)

func TestWithLen(t *testing.T) {
	e := &refbin.Encoder{Ch: rm.Canon{}, SID: func(string) uint64 { return 4 }}
	for _, ty := range []rm.Type{rm.List, rm.Sexp, rm.Struct} {
		for n := 0; n < 300; n++ {
			v := WithLen(ty, n)
			b := e.Value(v)
			hdr := 1
			if n >= 14 {
				hdr = 1 + len(refbin.VarUint(uint64(n), 0))
			}
			want := n
			if ty == rm.Struct && n == 1 {
				want = 2
			}
			if len(b)-hdr != want && !(ty == rm.Struct && n == 1) {
				t.Errorf("%v n=%d: payload %d", ty, n, len(b)-hdr)
			}
		}
		for _, n := range []int{16383, 16384} {
			b := e.Value(WithLen(ty, n))
			if len(b)-4 != n && len(b)-3 != n {
				t.Errorf("%v n=%d: total %d", ty, n, len(b))
			}
		}
	}
}
