// Package catalogue holds the shared alphabets (DESIGN §7): boundary scalars,
// symbol texts that look reserved, annotation sets, container shapes.
package catalogue

import (
	"math"
	"math/big"
	"strings"

	rm "verif/internal/refmodel"
)

func pow2(k uint) *big.Int { return new(big.Int).Lsh(big.NewInt(1), k) }

// Ints returns the boundary integers.
func Ints() []*big.Int {
	out := []*big.Int{big.NewInt(0), big.NewInt(1), big.NewInt(-1), big.NewInt(42), big.NewInt(-42)}
	for _, k := range []uint{7, 8, 15, 16, 31, 32, 53, 56, 63, 64, 80} {
		for d := int64(-1); d <= 1; d++ {
			p := new(big.Int).Add(pow2(k), big.NewInt(d))
			out = append(out, p, new(big.Int).Neg(p))
		}
	}
	e30 := new(big.Int).Exp(big.NewInt(10), big.NewInt(30), nil)
	out = append(out, e30, new(big.Int).Neg(e30))
	return out
}

// Floats returns the boundary floats.
func Floats() []float64 {
	f32max := float64(math.MaxFloat32)
	return []float64{
		0, math.Copysign(0, -1), 1, -1, 1.5, 0.1, -0.1,
		1 + math.Pow(2, -23), 1 - math.Pow(2, -23), 1 + math.Pow(2, -24), math.Pow(2, 24) + 1,
		f32max, -f32max, math.Nextafter(f32max, math.Inf(1)), math.Nextafter(f32max, 0),
		float64(math.SmallestNonzeroFloat32), math.Nextafter(float64(math.SmallestNonzeroFloat32), 0),
		math.SmallestNonzeroFloat64, math.MaxFloat64, -math.MaxFloat64, 1e300, 1e-300, -1e300,
		math.Inf(1), math.Inf(-1), math.NaN(), 123456789.125, 3.141592653589793,
	}
}

// Decimals returns the boundary decimals.
func Decimals() []rm.Dec {
	bi := func(s string) *big.Int { x, _ := new(big.Int).SetString(s, 10); return x }
	var out []rm.Dec
	add := func(c *big.Int, e int64, nz bool) { out = append(out, rm.Dec{Coef: c, Exp: e, NegZero: nz}) }
	add(big.NewInt(0), 0, false)
	add(big.NewInt(0), 0, true)
	add(big.NewInt(0), 5, false)
	add(big.NewInt(0), -5, false)
	add(big.NewInt(0), -5, true)
	add(big.NewInt(0), 5, true)
	add(big.NewInt(1), 0, false)
	add(big.NewInt(-1), 0, false)
	add(big.NewInt(1234), -2, false)
	add(big.NewInt(-15), -1, false)
	add(big.NewInt(1), 100, false)
	add(big.NewInt(1), -100, false)
	add(big.NewInt(127), 0, false)
	add(big.NewInt(128), 0, false)
	add(big.NewInt(-128), 0, false)
	add(big.NewInt(255), -1, false)
	add(big.NewInt(256), -1, false)
	add(bi("123456789012345678901234567890"), -15, false)
	add(bi("-123456789012345678901234567890"), 3, false)
	add(pow2(63), 0, false)
	add(new(big.Int).Neg(pow2(63)), -1, false)
	add(pow2(64), 1, false)
	for _, e := range []int64{63, -63, 64, -64, 8191, -8191, 8192, -8192, math.MaxInt32, -math.MaxInt32} {
		add(big.NewInt(5), e, false)
	}
	add(big.NewInt(12), 1, false)
	add(big.NewInt(100), -2, false)
	add(big.NewInt(5), -1, false)
	add(big.NewInt(-5), -3, false)
	return out
}

// Timestamps returns the catalogue timestamps (the deep grid is C15's).
func Timestamps() []rm.TS {
	var out []rm.TS
	dates := [][3]int{{1, 1, 1}, {1999, 12, 31}, {2000, 2, 29}, {9999, 12, 31}, {2021, 6, 15}}
	for _, d := range dates {
		out = append(out, rm.TS{Year: d[0], Prec: rm.PYear})
		out = append(out, rm.TS{Year: d[0], Month: d[1], Prec: rm.PMonth})
		out = append(out, rm.TS{Year: d[0], Month: d[1], Day: d[2], Prec: rm.PDay})
	}
	type off struct {
		known bool
		min   int
	}
	offs := []off{{true, 0}, {false, 0}, {true, 1}, {true, -1}, {true, 330}, {true, -330}, {true, 1439}, {true, -1439}}
	for _, d := range dates {
		for _, o := range offs {
			// keep the UTC instant inside year 1..9999
			if (d[0] == 1 && o.known && o.min > 0) || (d[0] == 9999 && o.known && o.min < 0) {
				continue
			}
			h, mi, s := 23, 59, 59
			if d[0] == 1 {
				h, mi, s = 0, 0, 0
			}
			out = append(out, rm.TS{Year: d[0], Month: d[1], Day: d[2], Hour: h, Minute: mi, Prec: rm.PMinute, OffsetKnown: o.known, OffsetMin: o.min})
			out = append(out, rm.TS{Year: d[0], Month: d[1], Day: d[2], Hour: h, Minute: mi, Second: s, Prec: rm.PSecond, OffsetKnown: o.known, OffsetMin: o.min})
		}
	}
	fr := []struct {
		coef   int64
		digits int
	}{{0, 1}, {5, 1}, {0, 3}, {1, 3}, {120, 3}, {200, 3}, {999, 3}, {123456, 6}, {120, 9}, {120000000, 9}, {999999999, 9}, {1, 9}, {0, 9}, {50, 2}, {128, 3}, {32768, 6}}
	for _, f := range fr {
		for _, o := range offs[:3] {
			out = append(out, rm.TS{Year: 2021, Month: 6, Day: 15, Hour: 12, Minute: 34, Second: 56, FracCoef: big.NewInt(f.coef), FracDigits: f.digits, Prec: rm.PSecond, OffsetKnown: o.known, OffsetMin: o.min})
		}
	}
	return out
}

// SymTexts returns symbol texts, including ones that look reserved.
func SymTexts() []string {
	return []string{
		"a", "abc", "", "null", "true", "false", "nan", "$5", "$0", "$ion", "name", "+", "-", "++", ".",
		"a b", "a'b", "a\"b", "a\\b", "a\nb", "\x00", "é", "日本", "😀", "\x7f", "0abc", "_a", "$a", "1", "a.b",
		"//", "/*", "inf", "+inf", "null.int", "$ion_symbol_table", "symbols", "$10", "$99", "a::b", "{", "'''",
	}
}

// Strings returns string texts.
func Strings() []string {
	out := append([]string{}, SymTexts()...)
	out = append(out, "'''", "\r", "\r\n", "a\tb", "\x01\x1f", "ÿ", "�", "\U0010ffff", "line1\nline2", "\"", "\\", "''", "\x0b\x0c")
	for _, n := range []int{13, 14, 127, 128, 16383, 16384} {
		out = append(out, strings.Repeat("x", n))
	}
	return out
}

// Lobs returns byte strings.
func Lobs() [][]byte {
	out := [][]byte{{}, {0}, {0xff}, {'a'}, {'"'}, {'\\'}, {0x7f}, {0x80}, {'\n'}, {'a', 'b'}, {0, 0xff, 0x10}, {'}', '}'}, {'\'', '\'', '\''}, []byte("hello world"), {0xff, 0xff}, {0xfb, 0xff}}
	for _, n := range []int{13, 14, 127, 128, 16383, 16384} {
		b := make([]byte, n)
		for i := range b {
			b[i] = byte(i*7 + n)
		}
		out = append(out, b)
	}
	return out
}

// Scalars returns every catalogue scalar (no annotations, no field names).
func Scalars() []*rm.Value {
	var out []*rm.Value
	for t := rm.Null; t <= rm.Struct; t++ {
		out = append(out, rm.NullOf(t))
	}
	out = append(out, rm.BoolV(false), rm.BoolV(true))
	for _, i := range Ints() {
		out = append(out, rm.BigV(i))
	}
	for _, f := range Floats() {
		out = append(out, rm.FloatV(f))
	}
	for _, d := range Decimals() {
		out = append(out, rm.DecV(d.Coef, d.Exp, d.NegZero))
	}
	for _, t := range Timestamps() {
		out = append(out, rm.TSV(t))
	}
	for _, s := range SymTexts() {
		if s == "$ion_1_0" {
			continue
		}
		out = append(out, rm.SymV(s))
	}
	out = append(out, rm.SymTok(rm.NoText(0)))
	for _, s := range Strings() {
		out = append(out, rm.StrV(s))
	}
	for _, b := range Lobs() {
		out = append(out, rm.ClobV(b), rm.BlobV(b))
	}
	out = append(out, rm.ListV(), rm.SexpV(), rm.StructV())
	return out
}

// Reps returns one representative per token class (adjacency / pair tests).
func Reps() []*rm.Value {
	ts := Timestamps()
	return []*rm.Value{
		rm.NullOf(rm.Null), rm.NullOf(rm.Int), rm.NullOf(rm.Struct), rm.BoolV(true), rm.BoolV(false),
		rm.IntV(0), rm.IntV(-7), rm.BigV(pow2(64)),
		rm.FloatV(1.5), rm.FloatV(math.Inf(1)), rm.FloatV(math.Inf(-1)), rm.FloatV(math.NaN()), rm.FloatV(math.Copysign(0, -1)),
		rm.DecV(big.NewInt(15), -1, false), rm.DecV(big.NewInt(0), 0, true), rm.DecV(big.NewInt(1), 3, false),
		rm.TSV(ts[0]), rm.TSV(ts[2]), rm.TSV(ts[len(ts)-1]),
		rm.SymV("a"), rm.SymV("+"), rm.SymV("-"), rm.SymV("nan"), rm.SymV(""), rm.SymV("a b"), rm.SymV("inf"), rm.SymV("$5"), rm.SymV("//"), rm.SymV("."),
		rm.SymTok(rm.NoText(0)),
		rm.StrV(""), rm.StrV("s"), rm.StrV("a'''b\n"),
		rm.ClobV([]byte("c")), rm.BlobV([]byte{0xff, 0xff}), rm.BlobV(nil),
		rm.ListV(), rm.ListV(rm.IntV(1)), rm.SexpV(), rm.SexpV(rm.SymV("+")), rm.StructV(), rm.StructV(rm.IntV(1).F("f")),
		// long payloads: the writers take a different path from 64 bytes up
		rm.BlobV(seqBytes(64)), rm.ClobV(seqBytes(200)), rm.BigV(pow2(600)), rm.BigV(new(big.Int).Neg(pow2(520))), rm.StrV(strings.Repeat("L", 70)),
	}
}

func seqBytes(n int) []byte {
	b := make([]byte, n)
	for i := range b {
		b[i] = byte(32 + i%90)
	}
	return b
}

// AnnotSets returns the annotation sets.
func AnnotSets() [][]rm.Sym {
	return [][]rm.Sym{
		nil,
		{rm.T("a")},
		{rm.T("a"), rm.T("b")},
		{rm.T("$5")},
		{rm.T("")},
		{rm.T("null")},
		{rm.T("a b")},
		{rm.NoText(0)},
		{rm.T("a"), rm.T("a")},
	}
}

// FieldNames returns field-name symbols for struct contexts.
func FieldNames() []rm.Sym {
	return []rm.Sym{rm.T("f"), rm.T(""), rm.T("null"), rm.T("$5"), rm.T("a b"), rm.T("name"), rm.NoText(0), rm.T("true"), rm.T("+"), rm.T("é")}
}

// Leaves are the six leaf classes used by Shapes.
func Leaves() []*rm.Value {
	return []*rm.Value{rm.IntV(1), rm.StrV("s"), rm.SymV("y"), rm.NullOf(rm.List), rm.BlobV([]byte{1, 2}), rm.DecV(big.NewInt(5), -1, false)}
}

// Shapes returns container trees with up to maxNodes nodes and depth ≤ maxDepth
// over the leaf classes (leaves rotate so every class meets every position).
func Shapes(maxNodes, maxDepth int) []*rm.Value {
	leaves := Leaves()
	var out []*rm.Value
	li := 0
	nextLeaf := func() *rm.Value {
		v := leaves[li%len(leaves)].Clone()
		li++
		return v
	}
	// enumerate ordered trees by structure: a tree is a container kind plus a list of children,
	// each child is a leaf or a subtree
	type node struct {
		kind rm.Type // List/Sexp/Struct, or 0 for leaf
		kids []*node
	}
	var gen func(nodes, depth int) []*node
	gen = func(nodes, depth int) []*node {
		// all trees with exactly `nodes` nodes whose root is a container
		var res []*node
		if nodes < 1 {
			return nil
		}
		// forests of size nodes-1
		var forests func(n int) [][]*node
		forests = func(n int) [][]*node {
			if n == 0 {
				return [][]*node{nil}
			}
			var fs [][]*node
			for first := 1; first <= n; first++ {
				var firsts []*node
				if first == 1 {
					firsts = append(firsts, &node{})
				}
				if depth > 1 {
					firsts = append(firsts, gen(first, depth-1)...)
				}
				for _, f := range firsts {
					for _, rest := range forests(n - first) {
						fs = append(fs, append([]*node{f}, rest...))
					}
				}
			}
			return fs
		}
		for _, kind := range []rm.Type{rm.List, rm.Sexp, rm.Struct} {
			for _, f := range forests(nodes - 1) {
				res = append(res, &node{kind: kind, kids: f})
			}
		}
		return res
	}
	var build func(n *node, inStruct bool, idx int) *rm.Value
	build = func(n *node, inStruct bool, idx int) *rm.Value {
		var v *rm.Value
		if n.kind == 0 {
			v = nextLeaf()
		} else {
			v = &rm.Value{Type: n.kind}
			for i, k := range n.kids {
				v.Kids = append(v.Kids, build(k, n.kind == rm.Struct, i))
			}
		}
		if inStruct {
			names := []string{"a", "b", "a", "c"}
			s := rm.T(names[idx%len(names)])
			v.Field = &s
		}
		return v
	}
	for n := 1; n <= maxNodes; n++ {
		for _, t := range gen(n, maxDepth) {
			out = append(out, build(t, false, 0))
		}
	}
	return out
}

// strEncLen is the canonical binary size of a string of n bytes.
func strEncLen(n int) int {
	switch {
	case n < 14:
		return 1 + n
	case n < 128:
		return 2 + n
	case n < 16384:
		return 3 + n
	}
	return 4 + n
}

// payload returns values whose canonical binary encodings total exactly n bytes
// (one string, preceded by a one-byte int `20` when no single string fits).
func payload(n int) []*rm.Value {
	if n == 0 {
		return nil
	}
	for l := n; l >= 0 && l >= n-5; l-- {
		if strEncLen(l) == n {
			return []*rm.Value{rm.StrV(strings.Repeat("p", l))}
		}
	}
	return append([]*rm.Value{rm.IntV(0)}, payload(n-1)...)
}

// WithLen builds a container of kind t whose canonical binary payload has
// exactly n bytes (struct fields use the one-byte SID of `name`; a struct
// cannot have a 1-byte payload, so n=1 yields 2).
func WithLen(t rm.Type, n int) *rm.Value {
	v := &rm.Value{Type: t}
	if t != rm.Struct {
		v.Kids = payload(n)
		return v
	}
	if n == 0 {
		return v
	}
	if n < 2 {
		n = 2
	}
	ks := payload(n - 1)
	if len(ks) == 2 {
		// two fields cost two SID bytes
		ks = append([]*rm.Value{rm.IntV(0)}, payload(n-3)...)
		if len(ks) != 2 {
			ks = []*rm.Value{rm.IntV(0), rm.IntV(0), payload(n - 5)[0]}
		}
	}
	for _, k := range ks {
		v.Kids = append(v.Kids, k.F("name"))
	}
	return v
}
