// Package refmodel is the Ion data model used by every oracle. It shares no
// code with github.com/amzn/ion-go/ion and does not import it.
package refmodel

import (
	"bytes"
	"fmt"
	"math"
	"math/big"
	"strings"
)

type Type int

const (
	Null Type = iota
	Bool
	Int
	Float
	Decimal
	Timestamp
	Symbol
	String
	Clob
	Blob
	List
	Sexp
	Struct
)

var typeNames = [...]string{"null", "bool", "int", "float", "decimal", "timestamp", "symbol", "string", "clob", "blob", "list", "sexp", "struct"}

func (t Type) String() string {
	if t < 0 || int(t) >= len(typeNames) {
		return fmt.Sprintf("type%d", int(t))
	}
	return typeNames[t]
}

// TypeByName maps "int" → Int etc.
func TypeByName(s string) (Type, bool) {
	for i, n := range typeNames {
		if n == s {
			return Type(i), true
		}
	}
	return 0, false
}

func (t Type) IsContainer() bool { return t >= List }

// Sym is a symbol token: text, or unknown text with a symbol ID.
type Sym struct {
	Text    string
	HasText bool
	SID     int64 // meaningful when !HasText (0 = $0)
	// Quoted records that a text parser saw the symbol in quotes (so it can be
	// neither a version marker nor a $N reference). Ignored by equality.
	Quoted bool
}

func T(text string) Sym    { return Sym{Text: text, HasText: true} }
func NoText(sid int64) Sym { return Sym{SID: sid} }

func (s Sym) String() string {
	if !s.HasText {
		return fmt.Sprintf("$%d", s.SID)
	}
	return QuoteSym(s.Text)
}

// EqualText: symbols are compared by text; unknown text equals only unknown text.
func (s Sym) EqualText(o Sym) bool {
	if s.HasText != o.HasText {
		return false
	}
	if s.HasText {
		return s.Text == o.Text
	}
	return true
}

// Dec is coefficient × 10^Exp, with an explicit negative zero.
type Dec struct {
	Coef    *big.Int
	Exp     int64
	NegZero bool
}

func (d Dec) String() string {
	c := "0"
	if d.Coef != nil {
		c = d.Coef.String()
	}
	if d.NegZero {
		c = "-0"
	}
	return fmt.Sprintf("%sd%d", c, d.Exp)
}

func (d Dec) Equal(o Dec) bool {
	a, b := d.Coef, o.Coef
	if a == nil {
		a = new(big.Int)
	}
	if b == nil {
		b = new(big.Int)
	}
	return a.Cmp(b) == 0 && d.Exp == o.Exp && d.NegZero == o.NegZero
}

// Precision of a timestamp.
type Prec int

const (
	PYear Prec = iota + 1
	PMonth
	PDay
	PMinute
	PSecond // fractional seconds are PSecond with FracDigits > 0
)

// TS is a timestamp in *local* calendar fields plus offset.
type TS struct {
	Year, Month, Day     int
	Hour, Minute, Second int
	FracCoef             *big.Int // fraction = FracCoef × 10^-FracDigits
	FracDigits           int
	Prec                 Prec
	OffsetKnown          bool
	OffsetMin            int
}

func (t TS) frac() *big.Int {
	if t.FracCoef == nil {
		return new(big.Int)
	}
	return t.FracCoef
}

// DaysFromCivil: days since 0000-03-01 style epoch (proleptic Gregorian); only differences matter.
func DaysFromCivil(y, m, d int) int64 {
	if m <= 2 {
		y--
	}
	era := y / 400
	if y < 0 {
		era = (y - 399) / 400
	}
	yoe := y - era*400
	mp := (m + 9) % 12
	doy := (153*mp+2)/5 + d - 1
	doe := yoe*365 + yoe/4 - yoe/100 + doy
	return int64(era)*146097 + int64(doe)
}

// CivilFromDays inverts DaysFromCivil.
func CivilFromDays(z int64) (y, m, d int) {
	era := z / 146097
	if z < 0 {
		era = (z - 146096) / 146097
	}
	doe := z - era*146097
	yoe := (doe - doe/1460 + doe/36524 - doe/146096) / 365
	yy := yoe + era*400
	doy := doe - (365*yoe + yoe/4 - yoe/100)
	mp := (5*doy + 2) / 153
	dd := doy - (153*mp+2)/5 + 1
	mm := mp + 3
	if mm > 12 {
		mm -= 12
	}
	if mm <= 2 {
		yy++
	}
	return int(yy), int(mm), int(dd)
}

func IsLeap(y int) bool { return y%4 == 0 && (y%100 != 0 || y%400 == 0) }

func DaysIn(y, m int) int {
	switch m {
	case 2:
		if IsLeap(y) {
			return 29
		}
		return 28
	case 4, 6, 9, 11:
		return 30
	}
	return 31
}

// UTCMinutes returns the instant in minutes (UTC) on the DaysFromCivil scale.
func (t TS) UTCMinutes() int64 {
	mo, d := t.Month, t.Day
	if t.Prec < PMonth {
		mo = 1
	}
	if t.Prec < PDay {
		d = 1
	}
	min := DaysFromCivil(t.Year, mo, d)*1440 + int64(t.Hour)*60 + int64(t.Minute)
	if t.OffsetKnown {
		min -= int64(t.OffsetMin)
	}
	return min
}

// UTCFields returns the UTC calendar fields (what the binary encoding stores).
func (t TS) UTCFields() (y, mo, d, h, mi int) {
	if t.Prec < PMinute {
		mo, d = t.Month, t.Day
		if t.Prec < PMonth {
			mo = 1
		}
		if t.Prec < PDay {
			d = 1
		}
		return t.Year, mo, d, 0, 0
	}
	m := t.UTCMinutes()
	days := m / 1440
	rem := m % 1440
	if rem < 0 {
		rem += 1440
		days--
	}
	y, mo, d = CivilFromDays(days)
	return y, mo, d, int(rem / 60), int(rem % 60)
}

// FromUTC builds local fields from UTC fields and an offset.
func FromUTC(y, mo, d, h, mi int, offKnown bool, off int) (ly, lmo, ld, lh, lmi int) {
	m := DaysFromCivil(y, mo, d)*1440 + int64(h)*60 + int64(mi)
	if offKnown {
		m += int64(off)
	}
	days := m / 1440
	rem := m % 1440
	if rem < 0 {
		rem += 1440
		days--
	}
	ly, lmo, ld = CivilFromDays(days)
	return ly, lmo, ld, int(rem / 60), int(rem % 60)
}

// Equal is strict Ion timestamp equivalence: instant, offset, precision, fraction digits.
func (t TS) Equal(o TS) bool {
	if t.Prec != o.Prec {
		return false
	}
	if t.Prec >= PMinute {
		if t.OffsetKnown != o.OffsetKnown || (t.OffsetKnown && t.OffsetMin != o.OffsetMin) {
			return false
		}
	}
	if t.UTCMinutes() != o.UTCMinutes() {
		return false
	}
	// fields below the precision are zero in a well-formed value; comparing them anyway makes a
	// reader that leaves stale time-of-day in a coarser timestamp visible
	if t.Second != o.Second || t.FracDigits != o.FracDigits || t.frac().Cmp(o.frac()) != 0 {
		return false
	}
	return true
}

func (t TS) String() string {
	var sb strings.Builder
	fmt.Fprintf(&sb, "%04d", t.Year)
	if t.Prec == PYear {
		return sb.String() + "T"
	}
	fmt.Fprintf(&sb, "-%02d", t.Month)
	if t.Prec == PMonth {
		return sb.String() + "T"
	}
	fmt.Fprintf(&sb, "-%02d", t.Day)
	if t.Prec == PDay {
		return sb.String()
	}
	fmt.Fprintf(&sb, "T%02d:%02d", t.Hour, t.Minute)
	if t.Prec >= PSecond {
		fmt.Fprintf(&sb, ":%02d", t.Second)
		if t.FracDigits > 0 {
			s := t.frac().String()
			for len(s) < t.FracDigits {
				s = "0" + s
			}
			sb.WriteString("." + s)
		}
	}
	switch {
	case !t.OffsetKnown:
		sb.WriteString("-00:00")
	case t.OffsetMin == 0:
		sb.WriteString("Z")
	default:
		o := t.OffsetMin
		sign := '+'
		if o < 0 {
			sign = '-'
			o = -o
		}
		fmt.Fprintf(&sb, "%c%02d:%02d", sign, o/60, o%60)
	}
	return sb.String()
}

// Valid reports whether the fields form a legal Ion timestamp.
func (t TS) Valid() bool {
	if t.Year < 1 || t.Year > 9999 {
		return false
	}
	if t.Prec >= PMonth && (t.Month < 1 || t.Month > 12) {
		return false
	}
	if t.Prec >= PDay && (t.Day < 1 || t.Day > DaysIn(t.Year, t.Month)) {
		return false
	}
	if t.Prec >= PMinute {
		if t.Hour < 0 || t.Hour > 23 || t.Minute < 0 || t.Minute > 59 {
			return false
		}
		if t.OffsetKnown && (t.OffsetMin <= -1440 || t.OffsetMin >= 1440) {
			return false
		}
	}
	if t.Prec >= PSecond && (t.Second < 0 || t.Second > 59) {
		return false
	}
	return true
}

// Value is one Ion value.
type Value struct {
	Type   Type
	Null   bool
	Annots []Sym
	Field  *Sym // set for struct children

	Bool  bool
	Int   *big.Int
	Float float64
	Dec   Dec
	TS    TS
	Sym   Sym
	Text  string
	Bytes []byte
	Kids  []*Value
}

// Clone deep-copies v.
func (v *Value) Clone() *Value {
	if v == nil {
		return nil
	}
	c := *v
	c.Annots = append([]Sym(nil), v.Annots...)
	if v.Field != nil {
		f := *v.Field
		c.Field = &f
	}
	if v.Int != nil {
		c.Int = new(big.Int).Set(v.Int)
	}
	if v.Dec.Coef != nil {
		c.Dec.Coef = new(big.Int).Set(v.Dec.Coef)
	}
	if v.TS.FracCoef != nil {
		c.TS.FracCoef = new(big.Int).Set(v.TS.FracCoef)
	}
	c.Bytes = append([]byte(nil), v.Bytes...)
	c.Kids = nil
	for _, k := range v.Kids {
		c.Kids = append(c.Kids, k.Clone())
	}
	return &c
}

func symsEqual(a, b []Sym) bool {
	if len(a) != len(b) {
		return false
	}
	for i := range a {
		if !a[i].EqualText(b[i]) {
			return false
		}
	}
	return true
}

// Diff returns "" when a and b are equal under the strict equivalence of
// DESIGN Appendix A.4, else a short description of the first difference.
func Diff(a, b *Value) string { return diff(a, b, "") }

func diff(a, b *Value, path string) string {
	if a == nil || b == nil {
		if a == b {
			return ""
		}
		return path + ": one side missing"
	}
	if a.Type != b.Type {
		return fmt.Sprintf("%s: type %v vs %v", path, a.Type, b.Type)
	}
	if a.Null != b.Null {
		return fmt.Sprintf("%s: null %v vs %v", path, a.Null, b.Null)
	}
	if !symsEqual(a.Annots, b.Annots) {
		return fmt.Sprintf("%s: annotations %v vs %v", path, a.Annots, b.Annots)
	}
	if (a.Field == nil) != (b.Field == nil) {
		return fmt.Sprintf("%s: field name presence %v vs %v", path, a.Field, b.Field)
	}
	if a.Field != nil && !a.Field.EqualText(*b.Field) {
		return fmt.Sprintf("%s: field name %v vs %v", path, *a.Field, *b.Field)
	}
	if a.Null {
		return ""
	}
	switch a.Type {
	case Bool:
		if a.Bool != b.Bool {
			return fmt.Sprintf("%s: bool %v vs %v", path, a.Bool, b.Bool)
		}
	case Int:
		if a.Int.Cmp(b.Int) != 0 {
			return fmt.Sprintf("%s: int %v vs %v", path, a.Int, b.Int)
		}
	case Float:
		if !(math.IsNaN(a.Float) && math.IsNaN(b.Float)) && math.Float64bits(a.Float) != math.Float64bits(b.Float) {
			return fmt.Sprintf("%s: float bits %016x vs %016x", path, math.Float64bits(a.Float), math.Float64bits(b.Float))
		}
	case Decimal:
		if !a.Dec.Equal(b.Dec) {
			return fmt.Sprintf("%s: decimal %v vs %v", path, a.Dec, b.Dec)
		}
	case Timestamp:
		if !a.TS.Equal(b.TS) {
			return fmt.Sprintf("%s: timestamp %v vs %v", path, a.TS, b.TS)
		}
	case Symbol:
		if !a.Sym.EqualText(b.Sym) {
			return fmt.Sprintf("%s: symbol %v vs %v", path, a.Sym, b.Sym)
		}
	case String:
		if a.Text != b.Text {
			return fmt.Sprintf("%s: string %q vs %q", path, clip(a.Text), clip(b.Text))
		}
	case Clob, Blob:
		if !bytes.Equal(a.Bytes, b.Bytes) {
			return fmt.Sprintf("%s: lob bytes %x vs %x", path, clipB(a.Bytes), clipB(b.Bytes))
		}
	case List, Sexp, Struct:
		if len(a.Kids) != len(b.Kids) {
			return fmt.Sprintf("%s: %d children vs %d", path, len(a.Kids), len(b.Kids))
		}
		for i := range a.Kids {
			if d := diff(a.Kids[i], b.Kids[i], fmt.Sprintf("%s/%d", path, i)); d != "" {
				return d
			}
		}
	}
	return ""
}

func clip(s string) string {
	if len(s) > 40 {
		return s[:40] + "…"
	}
	return s
}
func clipB(b []byte) []byte {
	if len(b) > 24 {
		return b[:24]
	}
	return b
}

// DiffStreams compares two top-level sequences.
func DiffStreams(a, b []*Value) string {
	if len(a) != len(b) {
		return fmt.Sprintf("stream length %d vs %d", len(a), len(b))
	}
	for i := range a {
		if d := diff(a[i], b[i], fmt.Sprintf("#%d", i)); d != "" {
			return d
		}
	}
	return ""
}

// QuoteSym renders symbol text canonically (identifier bare, else quoted).
func QuoteSym(s string) string {
	if isIdent(s) && !isKeyword(s) && !looksLikeSID(s) {
		return s
	}
	return "'" + escape(s, '\'') + "'"
}

func isKeyword(s string) bool {
	switch s {
	case "null", "true", "false", "nan":
		return true
	}
	return false
}

func looksLikeSID(s string) bool {
	if len(s) < 2 || s[0] != '$' {
		return false
	}
	for i := 1; i < len(s); i++ {
		if s[i] < '0' || s[i] > '9' {
			return false
		}
	}
	return true
}

func isIdent(s string) bool {
	if s == "" {
		return false
	}
	for i := 0; i < len(s); i++ {
		c := s[i]
		ok := c == '_' || c == '$' || (c >= 'a' && c <= 'z') || (c >= 'A' && c <= 'Z') || (i > 0 && c >= '0' && c <= '9')
		if !ok {
			return false
		}
	}
	return true
}

func escape(s string, q byte) string {
	var sb strings.Builder
	for i := 0; i < len(s); i++ {
		c := s[i]
		switch {
		case c == q || c == '\\':
			sb.WriteByte('\\')
			sb.WriteByte(c)
		case c == '\n':
			sb.WriteString("\\n")
		case c == '\r':
			sb.WriteString("\\r")
		case c == '\t':
			sb.WriteString("\\t")
		case c < 0x20 || c == 0x7f:
			fmt.Fprintf(&sb, "\\x%02x", c)
		default:
			sb.WriteByte(c)
		}
	}
	return sb.String()
}

// String renders a value canonically (Ion-like text; for reports and witnesses).
func (v *Value) String() string {
	var sb strings.Builder
	v.render(&sb)
	return sb.String()
}

func (v *Value) render(sb *strings.Builder) {
	for _, a := range v.Annots {
		sb.WriteString(a.String())
		sb.WriteString("::")
	}
	if v.Null {
		if v.Type == Null {
			sb.WriteString("null")
		} else {
			sb.WriteString("null." + v.Type.String())
		}
		return
	}
	switch v.Type {
	case Bool:
		fmt.Fprintf(sb, "%v", v.Bool)
	case Int:
		s := v.Int.String()
		if len(s) > 60 {
			s = fmt.Sprintf("%s…(%d digits)", s[:20], len(s))
		}
		sb.WriteString(s)
	case Float:
		switch {
		case math.IsNaN(v.Float):
			sb.WriteString("nan")
		case math.IsInf(v.Float, 1):
			sb.WriteString("+inf")
		case math.IsInf(v.Float, -1):
			sb.WriteString("-inf")
		default:
			fmt.Fprintf(sb, "%se0", fmtFloat(v.Float))
		}
	case Decimal:
		sb.WriteString(v.Dec.String())
	case Timestamp:
		sb.WriteString(v.TS.String())
	case Symbol:
		sb.WriteString(v.Sym.String())
	case String:
		t := v.Text
		if len(t) > 80 {
			fmt.Fprintf(sb, "\"%s…\"(len %d)", escape(t[:30], '"'), len(t))
		} else {
			sb.WriteString("\"" + escape(t, '"') + "\"")
		}
	case Clob:
		if len(v.Bytes) > 40 {
			fmt.Fprintf(sb, "{{\"…\"(len %d)}}", len(v.Bytes))
		} else {
			sb.WriteString("{{\"" + escapeBytes(v.Bytes) + "\"}}")
		}
	case Blob:
		if len(v.Bytes) > 40 {
			fmt.Fprintf(sb, "{{blob len %d}}", len(v.Bytes))
		} else {
			fmt.Fprintf(sb, "{{x%x}}", v.Bytes)
		}
	case List, Sexp, Struct:
		open, close, sep := "[", "]", ","
		if v.Type == Sexp {
			open, close, sep = "(", ")", " "
		} else if v.Type == Struct {
			open, close = "{", "}"
		}
		sb.WriteString(open)
		for i, k := range v.Kids {
			if i > 0 {
				sb.WriteString(sep)
			}
			if i >= 12 {
				fmt.Fprintf(sb, "…(%d children)", len(v.Kids))
				break
			}
			if v.Type == Struct {
				if k.Field != nil {
					sb.WriteString(k.Field.String())
				} else {
					sb.WriteString("<nofield>")
				}
				sb.WriteString(":")
			}
			k.render(sb)
		}
		sb.WriteString(close)
	}
}

func fmtFloat(f float64) string {
	if f == 0 && math.Signbit(f) {
		return "-0"
	}
	return new(big.Float).SetFloat64(f).Text('g', -1)
}

func escapeBytes(b []byte) string {
	var sb strings.Builder
	for _, c := range b {
		if c < 0x20 || c >= 0x7f || c == '"' || c == '\\' {
			fmt.Fprintf(&sb, "\\x%02x", c)
		} else {
			sb.WriteByte(c)
		}
	}
	return sb.String()
}

// StreamString renders a top-level sequence.
func StreamString(vs []*Value) string {
	var parts []string
	for _, v := range vs {
		parts = append(parts, v.String())
	}
	return strings.Join(parts, " ")
}

// Constructors used by catalogues.
func NullOf(t Type) *Value    { return &Value{Type: t, Null: true} }
func BoolV(b bool) *Value     { return &Value{Type: Bool, Bool: b} }
func IntV(i int64) *Value     { return &Value{Type: Int, Int: big.NewInt(i)} }
func BigV(i *big.Int) *Value  { return &Value{Type: Int, Int: i} }
func FloatV(f float64) *Value { return &Value{Type: Float, Float: f} }
func DecV(c *big.Int, e int64, nz bool) *Value {
	return &Value{Type: Decimal, Dec: Dec{Coef: c, Exp: e, NegZero: nz}}
}
func TSV(t TS) *Value            { return &Value{Type: Timestamp, TS: t} }
func SymV(s string) *Value       { return &Value{Type: Symbol, Sym: T(s)} }
func SymTok(s Sym) *Value        { return &Value{Type: Symbol, Sym: s} }
func StrV(s string) *Value       { return &Value{Type: String, Text: s} }
func ClobV(b []byte) *Value      { return &Value{Type: Clob, Bytes: b} }
func BlobV(b []byte) *Value      { return &Value{Type: Blob, Bytes: b} }
func ListV(k ...*Value) *Value   { return &Value{Type: List, Kids: k} }
func SexpV(k ...*Value) *Value   { return &Value{Type: Sexp, Kids: k} }
func StructV(k ...*Value) *Value { return &Value{Type: Struct, Kids: k} }
func (v *Value) F(name string) *Value {
	c := v.Clone()
	s := T(name)
	c.Field = &s
	return c
}
func (v *Value) FS(s Sym) *Value {
	c := v.Clone()
	c.Field = &s
	return c
}
func (v *Value) A(annots ...string) *Value {
	c := v.Clone()
	for _, a := range annots {
		c.Annots = append(c.Annots, T(a))
	}
	return c
}
func (v *Value) AS(annots ...Sym) *Value {
	c := v.Clone()
	c.Annots = append(c.Annots, annots...)
	return c
}

// Chooser is how printers/encoders ask for representation choices. *mc.Ctx
// implements it; Canon always answers 0 (the canonical form).
type Chooser interface {
	Dev(label string, n int) int
	Pick(label string, n int) int
}

// Canon is the Chooser that always takes the default.
type Canon struct{}

func (Canon) Dev(string, int) int  { return 0 }
func (Canon) Pick(string, int) int { return 0 }
