// Package instr generates, from /repo's CURRENT sources, a build overlay of package
// ion in which every statement that touches a package-level variable of package ion
// or a field of a shareable type is preceded by a call to ion.VerifAccess (the hook
// declared in ion/verif_hooks.go). The overlay is never committed: a changed tree is
// instrumented as changed.
package instr

import (
	"bytes"
	"encoding/json"
	"fmt"
	"go/ast"
	"go/format"
	"go/importer"
	"go/parser"
	"go/token"
	"go/types"
	"os"
	"path/filepath"
	"sort"
	"strings"
)

// Shareable are the types whose objects are handed to several goroutines.
var Shareable = map[string]bool{"sst": true, "bogusSST": true, "lst": true, "symbolTableBuilder": true, "basicCatalog": true}

// Stats describes what was instrumented.
type Stats struct {
	Files      int
	Sites      int
	WriteSites int
	Locations  []string
	PkgVars    []string
	// SyncSites counts instrumented synchronisation operations (Mutex/RWMutex/Once/atomic).
	SyncSites int
	// Unmodelled lists uses of synchronisation the scheduler has no model for (channels, go
	// statements, WaitGroup, Cond, sync.Map, ...). While any exist the conflict monitor's verdicts
	// are advisory (see checks/c18.go).
	Unmodelled []string
	// ResetVars are the package-level variables whose initialisers VerifReset re-runs.
	ResetVars []string
}

type access struct {
	obj   string // expression text for the object ("nil" for package-level variables)
	loc   string
	write bool
}

type rewriter struct {
	fset  *token.FileSet
	info  *types.Info
	pkg   *types.Package
	stats *Stats
	locs  map[string]bool
	vars  map[string]bool
	// written: package-level variables some instrumented statement stores to
	written map[string]bool
}

// Generate writes the overlay into outDir and returns the overlay JSON path.
func Generate(repoIon, outDir string) (string, *Stats, error) {
	fset := token.NewFileSet()
	ents, err := os.ReadDir(repoIon)
	if err != nil {
		return "", nil, err
	}
	var files []*ast.File
	var names []string
	for _, e := range ents {
		n := e.Name()
		if !strings.HasSuffix(n, ".go") || strings.HasSuffix(n, "_test.go") {
			continue
		}
		f, err := parser.ParseFile(fset, filepath.Join(repoIon, n), nil, parser.ParseComments)
		if err != nil {
			return "", nil, err
		}
		files = append(files, f)
		names = append(names, n)
	}
	info := &types.Info{Uses: map[*ast.Ident]types.Object{}, Defs: map[*ast.Ident]types.Object{}, Selections: map[*ast.SelectorExpr]*types.Selection{}, Types: map[ast.Expr]types.TypeAndValue{}}
	conf := types.Config{Importer: importer.ForCompiler(fset, "source", nil), Error: func(error) {}}
	pkg, err := conf.Check("github.com/amzn/ion-go/ion", fset, files, info)
	if err != nil && pkg == nil {
		return "", nil, fmt.Errorf("type-check: %v", err)
	}
	rw := &rewriter{fset: fset, info: info, pkg: pkg, stats: &Stats{}, locs: map[string]bool{}, vars: map[string]bool{}, written: map[string]bool{}}
	overlay := map[string]string{}
	for i, f := range files {
		if names[i] == "verif_hooks.go" {
			continue
		}
		changed := false
		for _, d := range f.Decls {
			fd, ok := d.(*ast.FuncDecl)
			if !ok || fd.Body == nil || (fd.Recv == nil && fd.Name.Name == "init") {
				continue
			}
			if rw.block(fd.Body) {
				changed = true
			}
		}
		if !changed {
			continue
		}
		f.Comments = nil // inserted statements carry no positions; comments would be misplaced
		var buf bytes.Buffer
		if err := format.Node(&buf, fset, f); err != nil {
			return "", nil, fmt.Errorf("%s: %v", names[i], err)
		}
		out := filepath.Join(outDir, names[i])
		if err := os.WriteFile(out, buf.Bytes(), 0o644); err != nil {
			return "", nil, err
		}
		overlay[filepath.Join(repoIon, names[i])] = out
		rw.stats.Files++
	}
	if src, vars, err := rw.resetFile(files); err != nil {
		return "", nil, err
	} else if src != nil {
		out := filepath.Join(outDir, "verif_reset.go")
		if err := os.WriteFile(out, src, 0o644); err != nil {
			return "", nil, err
		}
		overlay[filepath.Join(repoIon, "verif_reset.go")] = out
		rw.stats.ResetVars = vars
	}
	for l := range rw.locs {
		rw.stats.Locations = append(rw.stats.Locations, l)
	}
	for v := range rw.vars {
		rw.stats.PkgVars = append(rw.stats.PkgVars, v)
	}
	sort.Strings(rw.stats.Locations)
	sort.Strings(rw.stats.PkgVars)
	oj, _ := json.Marshal(map[string]interface{}{"Replace": overlay})
	op := filepath.Join(outDir, "overlay.json")
	if err := os.WriteFile(op, oj, 0o644); err != nil {
		return "", nil, err
	}
	return op, rw.stats, nil
}

// block instruments a statement list in place.
func (rw *rewriter) block(b *ast.BlockStmt) bool {
	changed := false
	b.List, changed = rw.list(b.List)
	return changed
}

func (rw *rewriter) list(in []ast.Stmt) ([]ast.Stmt, bool) {
	changed := false
	var out []ast.Stmt
	for _, st := range in {
		before, after := rw.syncHooks(st)
		accs := rw.collect(st)
		for _, a := range accs {
			out = append(out, rw.hook(a))
			changed = true
		}
		for _, a := range before {
			out = append(out, rw.hook(a))
			changed = true
		}
		if rw.nested(st) {
			changed = true
		}
		out = append(out, st)
		for _, a := range after {
			out = append(out, rw.hook(a))
			changed = true
		}
	}
	return out, changed
}

// syncMethod classifies a call of a sync / sync/atomic method or function. op is "" when the
// call is not a synchronisation operation; obj is the expression identifying the object.
func (rw *rewriter) syncCall(call *ast.CallExpr) (op string, obj ast.Expr, modelled bool) {
	switch f := call.Fun.(type) {
	case *ast.SelectorExpr:
		if sel := rw.info.Selections[f]; sel != nil && sel.Kind() == types.MethodVal {
			fn, _ := sel.Obj().(*types.Func)
			if fn == nil || fn.Pkg() == nil {
				return "", nil, false
			}
			recv := ""
			if sig, ok := fn.Type().(*types.Signature); ok && sig.Recv() != nil {
				t := sig.Recv().Type()
				if p, ok := t.(*types.Pointer); ok {
					t = p.Elem()
				}
				if n, ok := t.(*types.Named); ok {
					recv = n.Obj().Name()
				}
			}
			switch fn.Pkg().Path() {
			case "sync":
				switch recv + "." + fn.Name() {
				case "Mutex.Lock", "RWMutex.Lock":
					return "Lock", f.X, true
				case "Mutex.Unlock", "RWMutex.Unlock":
					return "Unlock", f.X, true
				case "RWMutex.RLock":
					return "RLock", f.X, true
				case "RWMutex.RUnlock":
					return "RUnlock", f.X, true
				case "Once.Do":
					return "Once.Do", f.X, true
				}
				return recv + "." + fn.Name(), f.X, false
			case "sync/atomic":
				switch fn.Name() {
				case "Load":
					return "atomic.Load", f.X, true
				case "Store", "Swap", "CompareAndSwap", "Add", "And", "Or":
					return "atomic.Store", f.X, true
				}
				return "atomic." + recv + "." + fn.Name(), f.X, false
			}
			return "", nil, false
		}
		// package-qualified function: atomic.AddInt64(&x, 1)
		if id, ok := f.X.(*ast.Ident); ok {
			if pn, ok := rw.info.Uses[id].(*types.PkgName); ok && pn.Imported().Path() == "sync/atomic" && len(call.Args) > 0 {
				if strings.HasPrefix(f.Sel.Name, "Load") {
					return "atomic.Load", call.Args[0], true
				}
				return "atomic.Store", call.Args[0], true
			}
		}
	}
	return "", nil, false
}

// syncAccess renders the hook for a synchronisation operation on obj.
func (rw *rewriter) syncAccess(op string, obj ast.Expr, isAddr bool) (access, bool) {
	// the object expression must be a side-effect-free designator
	e := obj
	if isAddr {
		u, ok := obj.(*ast.UnaryExpr)
		if !ok || u.Op != token.AND {
			// a pointer held in a variable
			if p := rw.pureExpr(obj); p != "" {
				return access{p, "sync:" + op, false}, true
			}
			return access{}, false
		}
		e = u.X
	}
	// package-level variable or field of a shareable object: same key as plain accesses
	switch x := e.(type) {
	case *ast.Ident:
		if v, ok := rw.info.Uses[x].(*types.Var); ok && v.Parent() == rw.pkg.Scope() && !v.IsField() {
			return access{"nil", "sync:" + op + ":var " + v.Name(), false}, true
		}
	case *ast.SelectorExpr:
		if sel := rw.info.Selections[x]; sel != nil && sel.Kind() == types.FieldVal {
			if tn := shareableName(sel.Recv()); tn != "" {
				if o := rw.objExpr(x.X); o != "" {
					return access{o, "sync:" + op + ":" + tn + "." + x.Sel.Name, false}, true
				}
			}
		}
	}
	p := rw.pureExpr(e)
	if p == "" {
		return access{}, false
	}
	if tv, ok := rw.info.Types[e]; ok {
		if _, isPtr := tv.Type.Underlying().(*types.Pointer); isPtr {
			return access{p, "sync:" + op, false}, true
		}
	}
	return access{"&" + p, "sync:" + op, false}, true
}

// syncHooks returns the hooks to place before and after st for the synchronisation
// operations st performs, rewriting deferred unlocks so that their hook runs at the unlock.
func (rw *rewriter) syncHooks(st ast.Stmt) (before, after []access) {
	pos := func(n ast.Node) string {
		p := rw.fset.Position(n.Pos())
		return fmt.Sprintf("%s:%d", filepath.Base(p.Filename), p.Line)
	}
	switch s := st.(type) {
	case *ast.GoStmt:
		rw.stats.Unmodelled = append(rw.stats.Unmodelled, "go statement at "+pos(s))
	case *ast.SendStmt, *ast.SelectStmt:
		rw.stats.Unmodelled = append(rw.stats.Unmodelled, "channel operation at "+pos(s))
	case *ast.DeferStmt:
		if op, obj, modelled := rw.syncCall(s.Call); op != "" {
			a, ok := rw.syncAccess(op, obj, strings.HasPrefix(op, "atomic.") && !rw.isMethodCall(s.Call))
			if !modelled || !ok {
				rw.stats.Unmodelled = append(rw.stats.Unmodelled, "deferred "+op+" at "+pos(s))
				return
			}
			// defer X.Unlock()  ==>  defer func() { X.Unlock() }(): the statement inside is then
			// instrumented like any other, so its hook runs when the unlock does
			_ = a
			body := &ast.BlockStmt{List: []ast.Stmt{&ast.ExprStmt{X: s.Call}}}
			s.Call = &ast.CallExpr{Fun: &ast.FuncLit{Type: &ast.FuncType{Params: &ast.FieldList{}}, Body: body}}
			return
		}
	}
	// synchronisation calls evaluated by the statement header
	reads, writes := headerExprs(st)
	if _, isDefer := st.(*ast.DeferStmt); isDefer {
		return
	}
	for _, e := range append(append([]ast.Expr{}, reads...), writes...) {
		if e == nil {
			continue
		}
		ast.Inspect(e, func(n ast.Node) bool {
			switch x := n.(type) {
			case *ast.FuncLit:
				return false
			case *ast.UnaryExpr:
				if x.Op == token.ARROW {
					rw.stats.Unmodelled = append(rw.stats.Unmodelled, "channel receive at "+pos(x))
				}
			case *ast.CallExpr:
				op, obj, modelled := rw.syncCall(x)
				if op == "" {
					return true
				}
				a, ok := rw.syncAccess(op, obj, strings.HasPrefix(op, "atomic.") && !rw.isMethodCall(x))
				if !modelled || !ok {
					rw.stats.Unmodelled = append(rw.stats.Unmodelled, op+" at "+pos(x))
					return true
				}
				rw.stats.SyncSites++
				before = append(before, a)
				if op == "Once.Do" {
					done := a
					done.loc = strings.Replace(a.loc, "sync:Once.Do", "sync:Once.Done", 1)
					after = append(after, done)
				}
			}
			return true
		})
	}
	return
}

func (rw *rewriter) isMethodCall(c *ast.CallExpr) bool {
	if sel, ok := c.Fun.(*ast.SelectorExpr); ok {
		return rw.info.Selections[sel] != nil
	}
	return false
}

// nested recurses into the statement lists contained in st.
func (rw *rewriter) nested(st ast.Stmt) bool {
	ch := false
	switch s := st.(type) {
	case *ast.BlockStmt:
		ch = rw.block(s)
	case *ast.IfStmt:
		ch = rw.block(s.Body)
		if s.Else != nil && rw.nested(s.Else) {
			ch = true
		}
	case *ast.ForStmt:
		ch = rw.block(s.Body)
	case *ast.RangeStmt:
		ch = rw.block(s.Body)
	case *ast.SwitchStmt:
		ch = rw.block(s.Body)
	case *ast.TypeSwitchStmt:
		ch = rw.block(s.Body)
	case *ast.SelectStmt:
		ch = rw.block(s.Body)
	case *ast.CaseClause:
		var c bool
		s.Body, c = rw.list(s.Body)
		ch = c
	case *ast.CommClause:
		var c bool
		s.Body, c = rw.list(s.Body)
		ch = c
	case *ast.LabeledStmt:
		ch = rw.nested(s.Stmt)
	}
	// function literals inside expressions
	ast.Inspect(st, func(n ast.Node) bool {
		if fl, ok := n.(*ast.FuncLit); ok {
			if rw.block(fl.Body) {
				ch = true
			}
			return false
		}
		switch n.(type) {
		case *ast.BlockStmt:
			return n == st
		}
		return true
	})
	return ch
}

// headerExprs returns the expressions evaluated by st itself (not by nested blocks).
func headerExprs(st ast.Stmt) (reads []ast.Expr, writes []ast.Expr) {
	switch s := st.(type) {
	case *ast.AssignStmt:
		writes = append(writes, s.Lhs...)
		reads = append(reads, s.Rhs...)
	case *ast.IncDecStmt:
		writes = append(writes, s.X)
	case *ast.ExprStmt:
		reads = append(reads, s.X)
	case *ast.ReturnStmt:
		reads = append(reads, s.Results...)
	case *ast.IfStmt:
		if s.Init != nil {
			r, w := headerExprs(s.Init)
			reads, writes = append(reads, r...), append(writes, w...)
		}
		reads = append(reads, s.Cond)
	case *ast.ForStmt:
		if s.Init != nil {
			r, w := headerExprs(s.Init)
			reads, writes = append(reads, r...), append(writes, w...)
		}
		if s.Cond != nil {
			reads = append(reads, s.Cond)
		}
		if s.Post != nil {
			r, w := headerExprs(s.Post)
			reads, writes = append(reads, r...), append(writes, w...)
		}
	case *ast.RangeStmt:
		reads = append(reads, s.X)
		if s.Tok == token.ASSIGN {
			if s.Key != nil {
				writes = append(writes, s.Key)
			}
			if s.Value != nil {
				writes = append(writes, s.Value)
			}
		}
	case *ast.SwitchStmt:
		if s.Init != nil {
			r, w := headerExprs(s.Init)
			reads, writes = append(reads, r...), append(writes, w...)
		}
		if s.Tag != nil {
			reads = append(reads, s.Tag)
		}
	case *ast.TypeSwitchStmt:
		if s.Init != nil {
			r, w := headerExprs(s.Init)
			reads, writes = append(reads, r...), append(writes, w...)
		}
		r, w := headerExprs(s.Assign)
		reads, writes = append(reads, r...), append(writes, w...)
	case *ast.DeclStmt:
		if gd, ok := s.Decl.(*ast.GenDecl); ok {
			for _, sp := range gd.Specs {
				if vs, ok := sp.(*ast.ValueSpec); ok {
					reads = append(reads, vs.Values...)
				}
			}
		}
	case *ast.GoStmt:
		reads = append(reads, s.Call)
	case *ast.DeferStmt:
		reads = append(reads, s.Call)
	case *ast.SendStmt:
		reads = append(reads, s.Chan, s.Value)
	case *ast.LabeledStmt:
		return headerExprs(s.Stmt)
	}
	return
}

func (rw *rewriter) collect(st ast.Stmt) []access {
	reads, writes := headerExprs(st)
	seen := map[string]int{}
	var out []access
	add := func(a access) {
		k := a.obj + "|" + a.loc
		if i, ok := seen[k]; ok {
			if a.write {
				out[i].write = true
			}
			return
		}
		seen[k] = len(out)
		out = append(out, a)
	}
	for _, e := range writes {
		rw.exprAccesses(e, true, add)
	}
	for _, e := range reads {
		rw.exprAccesses(e, false, add)
	}
	for _, a := range out {
		rw.stats.Sites++
		if a.write {
			rw.stats.WriteSites++
		}
		rw.locs[a.loc] = true
	}
	return out
}

// exprAccesses walks e; target says e itself is being stored to.
func (rw *rewriter) exprAccesses(e ast.Expr, target bool, add func(access)) {
	switch x := e.(type) {
	case nil:
		return
	case *ast.ParenExpr:
		rw.exprAccesses(x.X, target, add)
	case *ast.Ident:
		if obj, ok := rw.info.Uses[x].(*types.Var); ok && obj.Parent() == rw.pkg.Scope() && !obj.IsField() {
			if obj.Name() == "VerifAccess" {
				return
			}
			rw.vars[obj.Name()] = true
			if target {
				rw.written[obj.Name()] = true
			}
			add(access{"nil", "var " + obj.Name(), target})
		}
	case *ast.SelectorExpr:
		if sel := rw.info.Selections[x]; sel != nil && sel.Kind() == types.FieldVal {
			if tn := shareableName(sel.Recv()); tn != "" {
				if obj := rw.objExpr(x.X); obj != "" {
					add(access{obj, tn + "." + x.Sel.Name, target})
				}
			}
		}
		rw.exprAccesses(x.X, false, add)
	case *ast.IndexExpr:
		// storing to x[i] mutates what x denotes
		rw.exprAccesses(x.X, target, add)
		rw.exprAccesses(x.Index, false, add)
	case *ast.SliceExpr:
		// slicing an array variable aliases it: later writes go through the slice
		alias := target
		if tv, ok := rw.info.Types[x.X]; ok {
			if _, isArr := tv.Type.Underlying().(*types.Array); isArr {
				alias = true
			}
		}
		rw.exprAccesses(x.X, alias, add)
		rw.exprAccesses(x.Low, false, add)
		rw.exprAccesses(x.High, false, add)
		rw.exprAccesses(x.Max, false, add)
	case *ast.StarExpr:
		rw.exprAccesses(x.X, target, add)
	case *ast.UnaryExpr:
		rw.exprAccesses(x.X, x.Op == token.AND, add)
	case *ast.BinaryExpr:
		rw.exprAccesses(x.X, false, add)
		rw.exprAccesses(x.Y, false, add)
	case *ast.CallExpr:
		if id, ok := x.Fun.(*ast.Ident); ok && (id.Name == "delete" || id.Name == "copy" || id.Name == "clear") && len(x.Args) > 0 {
			if _, isBuiltin := rw.info.Uses[id].(*types.Builtin); isBuiltin {
				rw.exprAccesses(x.Args[0], true, add)
				for _, a := range x.Args[1:] {
					rw.exprAccesses(a, false, add)
				}
				return
			}
		}
		if op, _, _ := rw.syncCall(x); op != "" {
			// the synchronisation object itself is not a plain access; its operation has its own hook
			if rw.isMethodCall(x) {
				for _, a := range x.Args {
					rw.exprAccesses(a, false, add)
				}
			} else {
				for _, a := range x.Args[1:] {
					rw.exprAccesses(a, false, add)
				}
			}
			return
		}
		rw.exprAccesses(x.Fun, false, add)
		for _, a := range x.Args {
			rw.exprAccesses(a, false, add)
		}
	case *ast.CompositeLit:
		for _, el := range x.Elts {
			if kv, ok := el.(*ast.KeyValueExpr); ok {
				rw.exprAccesses(kv.Value, false, add)
			} else {
				rw.exprAccesses(el, false, add)
			}
		}
	case *ast.KeyValueExpr:
		rw.exprAccesses(x.Value, false, add)
	case *ast.TypeAssertExpr:
		rw.exprAccesses(x.X, false, add)
	case *ast.FuncLit:
		// its body is instrumented on its own
	}
}

func shareableName(t types.Type) string {
	if p, ok := t.(*types.Pointer); ok {
		t = p.Elem()
	}
	if n, ok := t.(*types.Named); ok && Shareable[n.Obj().Name()] {
		return n.Obj().Name()
	}
	return ""
}

// objExpr renders the object an access goes through if that is a side-effect-free
// pointer-valued expression (identity of the shared object); "" otherwise.
func (rw *rewriter) objExpr(e ast.Expr) string {
	tv, ok := rw.info.Types[e]
	if !ok {
		return ""
	}
	if _, isPtr := tv.Type.Underlying().(*types.Pointer); !isPtr {
		return "" // a value (local copy or embedded by value): thread-local
	}
	switch x := e.(type) {
	case *ast.Ident:
		return x.Name
	case *ast.SelectorExpr:
		if inner := rw.pureExpr(x); inner != "" {
			return inner
		}
	}
	return ""
}

func (rw *rewriter) pureExpr(e ast.Expr) string {
	switch x := e.(type) {
	case *ast.Ident:
		return x.Name
	case *ast.SelectorExpr:
		if in := rw.pureExpr(x.X); in != "" {
			return in + "." + x.Sel.Name
		}
	}
	return ""
}

func (rw *rewriter) hook(a access) ast.Stmt {
	src := fmt.Sprintf("package p\nfunc f() { if VerifAccess != nil { VerifAccess(%s, %q, %v) } }", a.obj, a.loc, a.write)
	f, err := parser.ParseFile(token.NewFileSet(), "", src, 0)
	if err != nil {
		panic(err)
	}
	st := f.Decls[0].(*ast.FuncDecl).Body.List[0]
	// strip positions so that go/format lays the statement out afresh
	ast.Inspect(st, func(n ast.Node) bool { return true })
	return stripPos(st)
}

func stripPos(st ast.Stmt) ast.Stmt {
	ast.Inspect(st, func(n ast.Node) bool {
		switch x := n.(type) {
		case *ast.Ident:
			x.NamePos = token.NoPos
		case *ast.BasicLit:
			x.ValuePos = token.NoPos
		case *ast.CallExpr:
			x.Lparen, x.Rparen = token.NoPos, token.NoPos
		case *ast.IfStmt:
			x.If = token.NoPos
		case *ast.BlockStmt:
			x.Lbrace, x.Rbrace = token.NoPos, token.NoPos
		case *ast.BinaryExpr:
			x.OpPos = token.NoPos
		}
		return true
	})
	return st
}

// resetFile generates verif_reset.go: VerifReset re-runs, in initialisation order, the
// initialiser of every package-level variable (and zeroes the variables without one that
// instrumented code writes), so that lazily built package state is cold in every execution.
func (rw *rewriter) resetFile(files []*ast.File) ([]byte, []string, error) {
	imports := map[string]string{} // path -> name
	var body bytes.Buffer
	var vars []string
	skip := map[string]bool{"VerifAccess": true, "VerifReset": true, "_": true}
	initialised := map[string]bool{}
	qual := func(p *types.Package) string {
		if p == rw.pkg {
			return ""
		}
		imports[p.Path()] = p.Name()
		return p.Name()
	}
	for _, in := range rw.info.InitOrder {
		var lhs []string
		all := true
		for _, v := range in.Lhs {
			if skip[v.Name()] {
				all = false
				lhs = append(lhs, "_")
				continue
			}
			lhs = append(lhs, v.Name())
			initialised[v.Name()] = true
		}
		if !all && len(in.Lhs) == 1 {
			continue
		}
		ast.Inspect(in.Rhs, func(n ast.Node) bool {
			if id, ok := n.(*ast.Ident); ok {
				if pn, ok := rw.info.Uses[id].(*types.PkgName); ok {
					imports[pn.Imported().Path()] = pn.Name()
				}
			}
			return true
		})
		var rhs bytes.Buffer
		if err := format.Node(&rhs, rw.fset, in.Rhs); err != nil {
			return nil, nil, err
		}
		fmt.Fprintf(&body, "\t\t%s = %s\n", strings.Join(lhs, ", "), rhs.String())
		vars = append(vars, lhs...)
	}
	var zero []string
	// every variable without an initialiser goes back to its zero value (a Once that has not
	// run, an unlocked Mutex, an empty cache): what a fresh process starts with
	for _, name := range rw.pkg.Scope().Names() {
		if initialised[name] || skip[name] {
			continue
		}
		if v, ok := rw.pkg.Scope().Lookup(name).(*types.Var); ok {
			zero = append(zero, fmt.Sprintf("\t\t{\n\t\t\tvar z %s\n\t\t\t%s = z\n\t\t}\n", types.TypeString(v.Type(), qual), name))
			vars = append(vars, name)
		}
	}
	sort.Strings(zero)
	for _, z := range zero {
		body.WriteString(z)
	}
	if body.Len() == 0 {
		return nil, nil, nil
	}
	var src bytes.Buffer
	src.WriteString("//go:build verif\n\npackage ion\n\n")
	var paths []string
	for p := range imports {
		paths = append(paths, p)
	}
	sort.Strings(paths)
	if len(paths) > 0 {
		src.WriteString("import (\n")
		for _, p := range paths {
			fmt.Fprintf(&src, "\t%s %q\n", imports[p], p)
		}
		src.WriteString(")\n\n")
	}
	src.WriteString("func init() {\n\tVerifReset = func() {\n")
	src.Write(body.Bytes())
	src.WriteString("\t}\n}\n")
	out, err := format.Source(src.Bytes())
	if err != nil {
		return nil, nil, fmt.Errorf("verif_reset.go: %v\n%s", err, src.String())
	}
	return out, vars, nil
}
