// Package drive adapts the reference model to the real ion-go API.
package drive

import (
	"fmt"
	"runtime"
	"strings"
)

// Safe runs f and converts a panic into a description "msg @ file:line (func)"
// naming the innermost ion-go frame. Fatal runtime errors cannot be caught here.
func Safe(f func()) (pan string) {
	defer func() {
		if r := recover(); r != nil {
			pan = fmt.Sprintf("%v", r)
			if len(pan) > 200 {
				pan = pan[:200]
			}
			pcs := make([]uintptr, 64)
			n := runtime.Callers(2, pcs)
			frames := runtime.CallersFrames(pcs[:n])
			for {
				fr, more := frames.Next()
				if strings.Contains(fr.Function, "github.com/amzn/ion-go/") {
					fn := fr.Function[strings.LastIndex(fr.Function, "/")+1:]
					pan += " @ " + fn
					break
				}
				if !more {
					break
				}
			}
			if pan == "" {
				pan = "panic"
			}
		}
	}()
	f()
	return ""
}

// PanicSite extracts the "@ func" suffix (stable across line-number changes).
func PanicSite(p string) string {
	if i := strings.LastIndex(p, " @ "); i >= 0 {
		return p[i+3:]
	}
	return "?"
}
