package drive

import (
	"fmt"
	"math/big"
	"time"

	"github.com/amzn/ion-go/ion"

	rm "verif/internal/refmodel"
)

// IonType maps a model type to ion-go's.
func IonType(t rm.Type) ion.Type {
	switch t {
	case rm.Null:
		return ion.NullType
	case rm.Bool:
		return ion.BoolType
	case rm.Int:
		return ion.IntType
	case rm.Float:
		return ion.FloatType
	case rm.Decimal:
		return ion.DecimalType
	case rm.Timestamp:
		return ion.TimestampType
	case rm.Symbol:
		return ion.SymbolType
	case rm.String:
		return ion.StringType
	case rm.Clob:
		return ion.ClobType
	case rm.Blob:
		return ion.BlobType
	case rm.List:
		return ion.ListType
	case rm.Sexp:
		return ion.SexpType
	case rm.Struct:
		return ion.StructType
	}
	return ion.NoType
}

// ModelType is the inverse of IonType.
func ModelType(t ion.Type) (rm.Type, bool) {
	switch t {
	case ion.NullType:
		return rm.Null, true
	case ion.BoolType:
		return rm.Bool, true
	case ion.IntType:
		return rm.Int, true
	case ion.FloatType:
		return rm.Float, true
	case ion.DecimalType:
		return rm.Decimal, true
	case ion.TimestampType:
		return rm.Timestamp, true
	case ion.SymbolType:
		return rm.Symbol, true
	case ion.StringType:
		return rm.String, true
	case ion.ClobType:
		return rm.Clob, true
	case ion.BlobType:
		return rm.Blob, true
	case ion.ListType:
		return rm.List, true
	case ion.SexpType:
		return rm.Sexp, true
	case ion.StructType:
		return rm.Struct, true
	}
	return 0, false
}

// Token converts a model symbol to a SymbolToken.
func Token(s rm.Sym) ion.SymbolToken {
	if s.HasText {
		return ion.NewSymbolTokenFromString(s.Text)
	}
	return ion.SymbolToken{LocalSID: s.SID}
}

// SymOf converts a SymbolToken to a model symbol.
func SymOf(t ion.SymbolToken) rm.Sym {
	if t.Text != nil {
		return rm.T(*t.Text)
	}
	return rm.NoText(t.LocalSID)
}

// Representable reports whether ion-go's Go API can carry v at all (int32
// decimal exponent, at most 9 fraction digits).
func Representable(v *rm.Value) bool {
	if !v.Null {
		switch v.Type {
		case rm.Decimal:
			if v.Dec.Exp < -(1<<31) || v.Dec.Exp > (1<<31)-1 {
				return false
			}
		case rm.Timestamp:
			if v.TS.FracDigits > 9 {
				return false
			}
		}
	}
	for _, k := range v.Kids {
		if !Representable(k) {
			return false
		}
	}
	return true
}

// IonTimestamp converts a model timestamp to ion.Timestamp.
func IonTimestamp(t rm.TS) ion.Timestamp {
	mo, d := t.Month, t.Day
	if t.Prec < rm.PMonth {
		mo = 1
	}
	if t.Prec < rm.PDay {
		d = 1
	}
	loc := time.UTC
	kind := ion.TimezoneUnspecified
	if t.Prec >= rm.PMinute && t.OffsetKnown {
		if t.OffsetMin == 0 {
			kind = ion.TimezoneUTC
		} else {
			kind = ion.TimezoneLocal
			loc = time.FixedZone("", t.OffsetMin*60)
		}
	}
	ns := 0
	if t.FracDigits > 0 && t.FracCoef != nil {
		x := new(big.Int).Set(t.FracCoef)
		for i := t.FracDigits; i < 9; i++ {
			x.Mul(x, big.NewInt(10))
		}
		ns = int(x.Int64())
	}
	var h, mi, s int
	if t.Prec >= rm.PMinute {
		h, mi = t.Hour, t.Minute
	}
	if t.Prec >= rm.PSecond {
		s = t.Second
	}
	dt := time.Date(t.Year, time.Month(mo), d, h, mi, s, ns, loc)
	switch t.Prec {
	case rm.PYear:
		return ion.NewTimestamp(dt, ion.TimestampPrecisionYear, kind)
	case rm.PMonth:
		return ion.NewTimestamp(dt, ion.TimestampPrecisionMonth, kind)
	case rm.PDay:
		return ion.NewTimestamp(dt, ion.TimestampPrecisionDay, kind)
	case rm.PMinute:
		return ion.NewTimestamp(dt, ion.TimestampPrecisionMinute, kind)
	}
	if t.FracDigits == 0 {
		return ion.NewTimestamp(dt, ion.TimestampPrecisionSecond, kind)
	}
	return ion.NewTimestampWithFractionalSeconds(dt, ion.TimestampPrecisionNanosecond, kind, uint8(t.FracDigits))
}

// ModelTimestamp converts an ion.Timestamp to the model.
func ModelTimestamp(ts ion.Timestamp) rm.TS {
	dt := ts.GetDateTime()
	_, off := dt.Zone()
	var t rm.TS
	t.Year, t.Month, t.Day = dt.Year(), int(dt.Month()), dt.Day()
	t.Hour, t.Minute, t.Second = dt.Hour(), dt.Minute(), dt.Second()
	switch ts.GetPrecision() {
	case ion.TimestampPrecisionYear:
		t.Prec = rm.PYear
	case ion.TimestampPrecisionMonth:
		t.Prec = rm.PMonth
	case ion.TimestampPrecisionDay:
		t.Prec = rm.PDay
	case ion.TimestampPrecisionMinute:
		t.Prec = rm.PMinute
	case ion.TimestampPrecisionSecond:
		t.Prec = rm.PSecond
	case ion.TimestampPrecisionNanosecond:
		t.Prec = rm.PSecond
		n := int(ts.GetNumberOfFractionalSeconds())
		ns := int64(dt.Nanosecond())
		div := int64(1)
		for i := n; i < 9; i++ {
			div *= 10
		}
		if n > 9 || ns%div != 0 {
			// digits beyond the declared count: represent all nine so a comparison fails visibly
			t.FracDigits = 9
			t.FracCoef = big.NewInt(ns)
		} else {
			t.FracDigits = n
			t.FracCoef = big.NewInt(ns / div)
		}
	default:
		t.Prec = 0
	}
	if ts.GetPrecision() != ion.TimestampPrecisionNanosecond && dt.Nanosecond() != 0 {
		// nanoseconds below the declared precision: make them visible
		t.FracDigits = 9
		t.FracCoef = big.NewInt(int64(dt.Nanosecond()))
	}
	if t.Prec >= rm.PMinute {
		switch ts.GetTimezoneKind() {
		case ion.TimezoneUnspecified:
			t.OffsetKnown = false
			if off != 0 {
				// cannot be expressed in the model; make it visible
				t.OffsetKnown = true
				t.OffsetMin = off/60 + 100000
			}
		default:
			t.OffsetKnown = true
			t.OffsetMin = off / 60
		}
	}
	return t
}

// IonDecimal converts a model decimal.
func IonDecimal(d rm.Dec) *ion.Decimal {
	c := d.Coef
	if c == nil {
		c = new(big.Int)
	}
	return ion.NewDecimal(new(big.Int).Set(c), int32(d.Exp), d.NegZero)
}

// ModelDecimal converts back.
func ModelDecimal(d *ion.Decimal) rm.Dec {
	c, e := d.CoEx()
	return rm.Dec{Coef: new(big.Int).Set(c), Exp: int64(e), NegZero: ion.VerifDecimalNegZero(d)}
}

// WriteOpts selects between equivalent Writer entry points.
type WriteOpts struct {
	IntVia    int  // 0 auto (WriteInt if it fits, else WriteBigInt), 1 WriteBigInt always, 2 WriteUint when non-negative and fits
	SymViaStr bool // WriteSymbolFromString instead of WriteSymbol for symbols with text
	AnnotBulk bool // Annotations(...) instead of repeated Annotation
	// ForeignSID, when > 0, is attached as LocalSID to every token that has text: a token that
	// came from some other symbol table. The text is what identifies the symbol.
	ForeignSID int64
	// FinishEach calls Finish after every top-level value (the writer is reused for the next batch).
	FinishEach bool
	// FinishEmpty adds Finish calls with nothing to flush: one before the first value and a second
	// one after every Finish that FinishEach makes. They must change nothing.
	FinishEmpty bool
	OnCall    func(name string, err error)
}

func (o *WriteOpts) tok(s rm.Sym) ion.SymbolToken {
	t := Token(s)
	if o != nil && o.ForeignSID > 0 && t.Text != nil {
		t.LocalSID = o.ForeignSID
	}
	return t
}

func (o *WriteOpts) note(name string, err error) error {
	if o != nil && o.OnCall != nil {
		o.OnCall(name, err)
	}
	return err
}

// WriteValue issues the Writer calls for v (annotations, then value, recursing).
// The field name, if v.Field is set, is written first.
func WriteValue(w ion.Writer, v *rm.Value, o *WriteOpts) error {
	if o == nil {
		o = &WriteOpts{}
	}
	if v.Field != nil {
		if err := o.note("FieldName", w.FieldName(o.tok(*v.Field))); err != nil {
			return err
		}
	}
	if len(v.Annots) > 0 {
		if o.AnnotBulk {
			toks := make([]ion.SymbolToken, len(v.Annots))
			for i, a := range v.Annots {
				toks[i] = o.tok(a)
			}
			if err := o.note("Annotations", w.Annotations(toks...)); err != nil {
				return err
			}
		} else {
			for _, a := range v.Annots {
				if err := o.note("Annotation", w.Annotation(o.tok(a))); err != nil {
					return err
				}
			}
		}
	}
	if v.Null {
		if v.Type == rm.Null {
			return o.note("WriteNull", w.WriteNull())
		}
		return o.note("WriteNullType", w.WriteNullType(IonType(v.Type)))
	}
	switch v.Type {
	case rm.Bool:
		return o.note("WriteBool", w.WriteBool(v.Bool))
	case rm.Int:
		switch {
		case o.IntVia == 2 && v.Int.Sign() >= 0 && v.Int.IsUint64():
			return o.note("WriteUint", w.WriteUint(v.Int.Uint64()))
		case o.IntVia == 1 || !v.Int.IsInt64():
			return o.note("WriteBigInt", w.WriteBigInt(new(big.Int).Set(v.Int)))
		}
		return o.note("WriteInt", w.WriteInt(v.Int.Int64()))
	case rm.Float:
		return o.note("WriteFloat", w.WriteFloat(v.Float))
	case rm.Decimal:
		return o.note("WriteDecimal", w.WriteDecimal(IonDecimal(v.Dec)))
	case rm.Timestamp:
		return o.note("WriteTimestamp", w.WriteTimestamp(IonTimestamp(v.TS)))
	case rm.Symbol:
		if o.SymViaStr && v.Sym.HasText {
			return o.note("WriteSymbolFromString", w.WriteSymbolFromString(v.Sym.Text))
		}
		return o.note("WriteSymbol", w.WriteSymbol(o.tok(v.Sym)))
	case rm.String:
		return o.note("WriteString", w.WriteString(v.Text))
	case rm.Clob:
		return o.note("WriteClob", w.WriteClob(v.Bytes))
	case rm.Blob:
		return o.note("WriteBlob", w.WriteBlob(v.Bytes))
	case rm.List, rm.Sexp, rm.Struct:
		var err error
		switch v.Type {
		case rm.List:
			err = o.note("BeginList", w.BeginList())
		case rm.Sexp:
			err = o.note("BeginSexp", w.BeginSexp())
		default:
			err = o.note("BeginStruct", w.BeginStruct())
		}
		if err != nil {
			return err
		}
		for _, k := range v.Kids {
			if err := WriteValue(w, k, o); err != nil {
				return err
			}
		}
		switch v.Type {
		case rm.List:
			return o.note("EndList", w.EndList())
		case rm.Sexp:
			return o.note("EndSexp", w.EndSexp())
		}
		return o.note("EndStruct", w.EndStruct())
	}
	return fmt.Errorf("drive: unknown type %v", v.Type)
}

// WriteStream writes all values then Finish.
func WriteStream(w ion.Writer, vals []*rm.Value, o *WriteOpts) error {
	if o == nil {
		o = &WriteOpts{}
	}
	if o.FinishEmpty {
		if err := o.note("Finish", w.Finish()); err != nil {
			return err
		}
	}
	for i, v := range vals {
		if err := WriteValue(w, v, o); err != nil {
			return err
		}
		if o.FinishEach && i < len(vals)-1 {
			if err := o.note("Finish", w.Finish()); err != nil {
				return err
			}
			if o.FinishEmpty {
				if err := o.note("Finish", w.Finish()); err != nil {
					return err
				}
			}
		}
	}
	return o.note("Finish", w.Finish())
}

// ReadCounter counts Reader API calls (transitions).
type ReadCounter struct{ Calls int }

// ReadValue converts the Reader's current value (after a successful Next).
func ReadValue(r ion.Reader, rc *ReadCounter) (*rm.Value, error) {
	mt, ok := ModelType(r.Type())
	if !ok {
		return nil, fmt.Errorf("drive: Next returned true but Type is %v", r.Type())
	}
	v := &rm.Value{Type: mt, Null: r.IsNull()}
	rc.Calls += 4
	as, err := r.Annotations()
	if err != nil {
		return nil, fmt.Errorf("Annotations: %w", err)
	}
	for _, a := range as {
		v.Annots = append(v.Annots, SymOf(a))
	}
	fn, err := r.FieldName()
	if err != nil {
		return nil, fmt.Errorf("FieldName: %w", err)
	}
	if fn != nil {
		s := SymOf(*fn)
		v.Field = &s
	}
	if v.Null {
		return v, nil
	}
	rc.Calls++
	switch mt {
	case rm.Bool:
		b, err := r.BoolValue()
		if err != nil || b == nil {
			return nil, fmt.Errorf("BoolValue: %v %v", b, err)
		}
		v.Bool = *b
	case rm.Int:
		b, err := r.BigIntValue()
		if err != nil || b == nil {
			return nil, fmt.Errorf("BigIntValue: %v %v", b, err)
		}
		v.Int = new(big.Int).Set(b)
	case rm.Float:
		f, err := r.FloatValue()
		if err != nil || f == nil {
			return nil, fmt.Errorf("FloatValue: %v %v", f, err)
		}
		v.Float = *f
	case rm.Decimal:
		d, err := r.DecimalValue()
		if err != nil || d == nil {
			return nil, fmt.Errorf("DecimalValue: %v %v", d, err)
		}
		v.Dec = ModelDecimal(d)
	case rm.Timestamp:
		t, err := r.TimestampValue()
		if err != nil || t == nil {
			return nil, fmt.Errorf("TimestampValue: %v %v", t, err)
		}
		v.TS = ModelTimestamp(*t)
	case rm.Symbol:
		s, err := r.SymbolValue()
		if err != nil || s == nil {
			return nil, fmt.Errorf("SymbolValue: %v %v", s, err)
		}
		v.Sym = SymOf(*s)
	case rm.String:
		s, err := r.StringValue()
		if err != nil || s == nil {
			return nil, fmt.Errorf("StringValue: %v %v", s, err)
		}
		v.Text = *s
	case rm.Clob, rm.Blob:
		b, err := r.ByteValue()
		if err != nil {
			return nil, fmt.Errorf("ByteValue: %v", err)
		}
		v.Bytes = append([]byte{}, b...)
	case rm.List, rm.Sexp, rm.Struct:
		if err := r.StepIn(); err != nil {
			return nil, fmt.Errorf("StepIn: %w", err)
		}
		kids, err := readSeq(r, rc, 0)
		if err != nil {
			return nil, err
		}
		v.Kids = kids
		rc.Calls++
		if err := r.StepOut(); err != nil {
			return nil, fmt.Errorf("StepOut: %w", err)
		}
	}
	return v, nil
}

// MaxValuesPerLevel is the deterministic hang guard (a Reader cannot yield
// more values than there are input bytes; callers set it from the input size).
var MaxValuesPerLevel = 1 << 22

func readSeq(r ion.Reader, rc *ReadCounter, depth int) ([]*rm.Value, error) {
	var out []*rm.Value
	for {
		rc.Calls++
		if !r.Next() {
			break
		}
		v, err := ReadValue(r, rc)
		if err != nil {
			return out, err
		}
		out = append(out, v)
		if len(out) > MaxValuesPerLevel {
			return out, fmt.Errorf("drive: more than %d values at one level (hang guard)", MaxValuesPerLevel)
		}
	}
	rc.Calls++
	if err := r.Err(); err != nil {
		return out, fmt.Errorf("Err: %w", err)
	}
	return out, nil
}

// ReadAll performs the plain full traversal.
func ReadAll(r ion.Reader) ([]*rm.Value, int, error) {
	rc := &ReadCounter{}
	vs, err := readSeq(r, rc, 0)
	return vs, rc.Calls, err
}

// ReadShallow converts the Reader's current value without stepping into containers.
func ReadShallow(r ion.Reader) (*rm.Value, error) {
	mt, ok := ModelType(r.Type())
	if !ok {
		return nil, fmt.Errorf("drive: no current value (Type %v)", r.Type())
	}
	if mt.IsContainer() {
		v := &rm.Value{Type: mt, Null: r.IsNull()}
		as, err := r.Annotations()
		if err != nil {
			return nil, fmt.Errorf("Annotations: %w", err)
		}
		for _, a := range as {
			v.Annots = append(v.Annots, SymOf(a))
		}
		fn, err := r.FieldName()
		if err != nil {
			return nil, fmt.Errorf("FieldName: %w", err)
		}
		if fn != nil {
			s := SymOf(*fn)
			v.Field = &s
		}
		return v, nil
	}
	return ReadValue(r, &ReadCounter{})
}

// Copy is the README copy loop completed for every type: field name, annotations,
// then the value (typed null, scalar by type, or container recursively).
func Copy(r ion.Reader, w ion.Writer, calls *int) error {
	for r.Next() {
		*calls += 4
		fn, err := r.FieldName()
		if err != nil {
			return fmt.Errorf("reader FieldName: %w", err)
		}
		if fn != nil {
			if err := w.FieldName(*fn); err != nil {
				return fmt.Errorf("writer FieldName: %w", err)
			}
		}
		an, err := r.Annotations()
		if err != nil {
			return fmt.Errorf("reader Annotations: %w", err)
		}
		if len(an) > 0 {
			if err := w.Annotations(an...); err != nil {
				return fmt.Errorf("writer Annotations: %w", err)
			}
		}
		t := r.Type()
		if r.IsNull() {
			if err := w.WriteNullType(t); err != nil {
				return fmt.Errorf("writer WriteNullType: %w", err)
			}
			continue
		}
		*calls += 2
		switch t {
		case ion.BoolType:
			v, err := r.BoolValue()
			if err != nil {
				return err
			}
			err = w.WriteBool(*v)
			if err != nil {
				return err
			}
		case ion.IntType:
			sz, err := r.IntSize()
			if err != nil {
				return err
			}
			if sz == ion.BigInt {
				v, err := r.BigIntValue()
				if err != nil {
					return err
				}
				if err := w.WriteBigInt(v); err != nil {
					return err
				}
			} else {
				v, err := r.Int64Value()
				if err != nil {
					return err
				}
				if err := w.WriteInt(*v); err != nil {
					return err
				}
			}
		case ion.FloatType:
			v, err := r.FloatValue()
			if err != nil {
				return err
			}
			if err := w.WriteFloat(*v); err != nil {
				return err
			}
		case ion.DecimalType:
			v, err := r.DecimalValue()
			if err != nil {
				return err
			}
			if err := w.WriteDecimal(v); err != nil {
				return err
			}
		case ion.TimestampType:
			v, err := r.TimestampValue()
			if err != nil {
				return err
			}
			if err := w.WriteTimestamp(*v); err != nil {
				return err
			}
		case ion.SymbolType:
			v, err := r.SymbolValue()
			if err != nil {
				return err
			}
			if err := w.WriteSymbol(*v); err != nil {
				return err
			}
		case ion.StringType:
			v, err := r.StringValue()
			if err != nil {
				return err
			}
			if err := w.WriteString(*v); err != nil {
				return err
			}
		case ion.ClobType:
			v, err := r.ByteValue()
			if err != nil {
				return err
			}
			if err := w.WriteClob(v); err != nil {
				return err
			}
		case ion.BlobType:
			v, err := r.ByteValue()
			if err != nil {
				return err
			}
			if err := w.WriteBlob(v); err != nil {
				return err
			}
		case ion.ListType, ion.SexpType, ion.StructType:
			if err := r.StepIn(); err != nil {
				return err
			}
			switch t {
			case ion.ListType:
				err = w.BeginList()
			case ion.SexpType:
				err = w.BeginSexp()
			default:
				err = w.BeginStruct()
			}
			if err != nil {
				return err
			}
			if err := Copy(r, w, calls); err != nil {
				return err
			}
			if err := r.StepOut(); err != nil {
				return err
			}
			switch t {
			case ion.ListType:
				err = w.EndList()
			case ion.SexpType:
				err = w.EndSexp()
			default:
				err = w.EndStruct()
			}
			if err != nil {
				return err
			}
		default:
			return fmt.Errorf("drive.Copy: unexpected type %v", t)
		}
	}
	return r.Err()
}
