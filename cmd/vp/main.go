// Command vp runs the bounded exhaustive checks of /verif against /repo.
package main

import (
	"fmt"
	"os"
	"path/filepath"
	"strconv"

	"verif/internal/checks"
	"verif/internal/mc"
)

func usage() {
	fmt.Fprintln(os.Stderr, "usage: vp check <ID> <tier> | worker … | replay <file> | selfcheck | list")
	os.Exit(2)
}

func main() {
	if len(os.Args) < 2 {
		usage()
	}
	self, _ := os.Executable()
	verifDir := os.Getenv("VERIF_DIR")
	if verifDir == "" {
		verifDir, _ = filepath.Abs(".")
	}
	switch os.Args[1] {
	case "check":
		if len(os.Args) < 4 {
			usage()
		}
		os.Exit(mc.RunCheck(os.Args[2], os.Args[3], verifDir, self))
	case "worker":
		if len(os.Args) < 7 {
			usage()
		}
		i, _ := strconv.Atoi(os.Args[4])
		n, _ := strconv.Atoi(os.Args[5])
		os.Exit(mc.WorkerMain(os.Args[2], os.Args[3], i, n, os.Args[6]))
	case "replay":
		if len(os.Args) < 3 {
			usage()
		}
		os.Exit(mc.ReplayFile(os.Args[2]))
	case "racepass":
		n := 200
		if len(os.Args) > 2 {
			n, _ = strconv.Atoi(os.Args[2])
		}
		os.Exit(checks.RacePass(n))
	case "c06probe":
		// one deep-nesting input under one driver in a process of its own (C06)
		if len(os.Args) < 5 {
			usage()
		}
		d, _ := strconv.Atoi(os.Args[2])
		n, _ := strconv.Atoi(os.Args[4])
		os.Exit(checks.C06Probe(d, os.Args[3], n))
	case "selfcheck":
		os.Exit(mc.RunSelfchecks())
	case "list":
		for _, id := range mc.IDs() {
			fmt.Println(id)
		}
	default:
		usage()
	}
}
